/* C04 harnesses: cancellation winner, propagation path, binding vs a concurrent canceller (sliced from src/tbb/task_group_context.cpp) */
#include "verif.h"
enum { state_created, state_locked, state_isolated, state_bound, state_dead };   /* order checked by spec.py against task_group.h */
#define may_have_children 1
struct ilnode { struct ilnode *my_prev_node, *my_next_node; }; struct eptr { int live; };
struct tgc; struct clist { uintptr_t epoch; int m_mutex; size_t n; struct tgc **items; bool orphaned; };
struct tgc { struct tgc *my_parent; uint32_t my_cancellation_requested; uint8_t my_state; uint8_t my_may_have_children; struct { bool bound, fp_settings; } my_traits; struct clist *my_context_list;
             struct ilnode my_node; struct eptr *my_exception; void *my_itt_caller; uint64_t my_cpu_ctl_env; };
struct arena; struct thread_data { struct tgc *current_context, *default_ctx; struct clist *my_context_list; void *my_arena_slot; struct arena *my_arena; };
uintptr_t the_context_state_propagation_epoch; int the_context_state_propagation_mutex;
#define SPIN_WAIT_WHILE_EQ(loc, v) do { interfere(); __CPROVER_assume((loc) != (v)); } while (0)
#define P_LOAD(f) (f)

#ifdef CANCEL
static struct tgc X; unsigned long gWinners; bool meWin; int g_prop_calls;
#define CINV (X.my_cancellation_requested <= 1 && (X.my_cancellation_requested == 1) == (gWinners == 1) && gWinners <= 1 && gWinners >= (unsigned long)meWin)
static void interfere(void) { X.my_cancellation_requested = nondet_u32(); gWinners = nondet_ulong(); __CPROVER_assume(CINV); }   /* other cancellers; the flag is never cleared by them */
#define ATOMIC_LOAD_AT(site, f) ({ uint32_t o_ = X.my_cancellation_requested; unsigned long w_ = gWinners; interfere(); __CPROVER_assume(X.my_cancellation_requested >= o_ && gWinners >= w_); (f); })
#define ATOMIC_XCHG_AT(site, f, v) ({ uint32_t o_ = X.my_cancellation_requested; unsigned long w_ = gWinners; interfere(); __CPROVER_assume(X.my_cancellation_requested >= o_ && gWinners >= w_); \
    uint32_t old_ = (f); (f) = (v); if (old_ == 0) { gWinners++; meWin = true; } __CPROVER_assert(CINV, "guarantee: one winner per 0->1 transition, at " #site); old_; })
static void STUB_propagate(struct tgc *c, uint32_t s) { g_prop_calls++; __CPROVER_assert(c == &X && s == 1, "C04.cancel: the winner propagates the state 'cancelled' from its own context"); }
#define LOOP_prop_1
#define LOOP_prop_2
#define P_STORE(c, v) ((c)->my_cancellation_requested = (v))
#define STUB_copy_fp_settings(a, b) ((void)0)
#define STUB_register_with(a, b) ((void)0)
#define LOCK_MUTEX(m) ((void)0)
#define UNLOCK_MUTEX(m) ((void)0)
#define LIST_PUSH_FRONT(l, c) ((void)0)
#define STUB_bind_to_impl(a, b) ((void)0)
#define ATOMIC_STORE_AT(site, f, v) ((f) = (v))
#define ATOMIC_CAS_AT(site, f, e, d) (0)
#include "tgc.inc"
void h_cancel(void) {
    X.my_cancellation_requested = nondet_u32(); gWinners = nondet_ulong(); meWin = false; g_prop_calls = 0; __CPROVER_assume(CINV);
    bool r = cancel_group_execution(&X);
    OBLIGATION(r == meWin && X.my_cancellation_requested == 1, "C04.cancel: of any number of concurrent cancel calls exactly one returns true per 0->1 transition; the flag ends set");
    OBLIGATION(g_prop_calls == (r ? 1 : 0), "C04.cancel: only the winner propagates");
    VACUITY_END();
}
#endif

#ifdef PROP
/* bounded cross-check of propagate.path.any_depth on real structs and real pointers: an arbitrary forest */
#ifndef DEPTH
#define DEPTH 5
#endif
#define LOOP_prop_anc
#define LOOP_prop_paint
#define LOOP_prop_1
#define LOOP_prop_2
#define LOOP_prop_3
#define P_STORE(c, v) ((c)->my_cancellation_requested = (v))
#define P_LOAD_STATE(c) ((c)->my_cancellation_requested)
#define TGC_PARENT(c) ((c)->my_parent)
#include "prop.inc"
static struct tgc N[DEPTH + 2];
void h_propagate(void) {
    /* an arbitrary forest over DEPTH+2 contexts: parent index is smaller than the child's (or none) */
    for (int i = 0; i < DEPTH + 2; ++i) { int p = nondet_int(); __CPROVER_assume(p >= -1 && p < i); N[i].my_parent = p < 0 ? NULL : &N[p]; N[i].my_cancellation_requested = nondet_bool(); }
    int ci = nondet_int(), si = nondet_int(); __CPROVER_assume(ci >= 0 && ci < DEPTH + 2 && si >= 0 && si < DEPTH + 2);
    uint32_t before[DEPTH + 2]; for (int i = 0; i < DEPTH + 2; ++i) before[i] = N[i].my_cancellation_requested;
    /* is src a proper ancestor of ctx, and which nodes lie on the path [ctx, src) */
    bool onpath[DEPTH + 2]; for (int i = 0; i < DEPTH + 2; ++i) onpath[i] = false;
    bool desc = false; { struct tgc *c = &N[ci]; bool tmp[DEPTH + 2]; for (int i = 0; i < DEPTH + 2; ++i) tmp[i] = false;
      for (int k = 0; k < DEPTH + 2 && c != NULL; ++k) { if (c == &N[si]) { desc = (c != &N[ci]); break; } tmp[c - N] = true; c = c->my_parent; }
      if (desc) for (int i = 0; i < DEPTH + 2; ++i) onpath[i] = tmp[i]; }
    propagate_task_group_state(&N[ci], &N[si], 1);
    bool act = desc && before[ci] != 1;
    for (int i = 0; i < DEPTH + 2; ++i) {
        if (act && onpath[i]) OBLIGATION(N[i].my_cancellation_requested == 1, "C04.propagate: every context on the path from ctx up to (not including) the cancelled ancestor is marked (bounded)");
        else OBLIGATION(N[i].my_cancellation_requested == before[i], "C04.propagate: the source, its ancestors, siblings, unrelated and isolated contexts are untouched (bounded)");
    }
    VACUITY_END();
}
#endif

#ifdef PROPU
/* task_group_context_impl::propagate_task_group_state for ancestor chains of ANY length (loop contracts).  The function only ever follows my_parent links starting at ctx, so
   the world it can see is ctx's ancestor chain: entry 0 is ctx, the parent of entry i is entry i+1, entry n-1 has no parent (root or isolated context).  Contexts are integer
   encoded (never dereferenced; every access goes through an accessor that checks that the context is a member of the chain), their state words live in g_st[].  The source is
   entry g_s of the chain (g_s == 0: ctx itself) or a context outside the chain (g_s >= n: sibling, descendant, unrelated tree).  One arbitrary entry g_k is watched. */
#define NMAX ((size_t)1 << 12)
static size_t g_n; static uint32_t *g_st; size_t g_k, g_s; uint32_t g_ns, g_st0k; int g_stores;
#define CPTR(i) ((struct tgc *)(((uintptr_t)(i) + 1) << 4))
#define CIDX(p) ((size_t)(((uintptr_t)(p)) >> 4) - 1)
#define AIDX(p) ((p) == NULL ? g_n : CIDX(p))              /* position of a chain cursor; the end of the chain (NULL) is position n */
#define WF(p) ((p) == (AIDX(p) == g_n ? NULL : CPTR(AIDX(p))))
static struct tgc *tgc_parent(struct tgc *p) {
    __CPROVER_assert(p != NULL && WF(p) && CIDX(p) < g_n, "C04.propagate: only ctx and its ancestors are ever looked at");
    return CIDX(p) + 1 < g_n ? CPTR(CIDX(p) + 1) : NULL; }
static uint32_t tgc_state(struct tgc *p) {
    __CPROVER_assert(p != NULL && WF(p) && CIDX(p) < g_n, "C04.propagate: only ctx and its ancestors are ever looked at");
    return g_st[CIDX(p)]; }
static void tgc_store(struct tgc *p, uint32_t v) {
    __CPROVER_assert(p != NULL && WF(p) && CIDX(p) < g_n, "C04.propagate: only ctx and its ancestors can be written - siblings, descendants and unrelated contexts are out of reach");
    g_st[CIDX(p)] = v; }
#define TGC_PARENT(c) tgc_parent(c)
#define P_LOAD_STATE(c) tgc_state(c)
#define P_STORE(c, v) tgc_store((c), (v))
/* search loop: the cursor is at position 1..n; nothing has been written as long as the source was not met below the cursor (if the search went on after painting - the code
   leaves the loop there, but need not - the path below the source is painted and nothing else) */
#define LOOP_prop_anc __CPROVER_assigns(ancestor, __CPROVER_object_whole(g_st)) \
    __CPROVER_loop_invariant(AIDX(ancestor) >= 1 && AIDX(ancestor) <= g_n && WF(ancestor) && ((g_s >= 1 && g_s < AIDX(ancestor) && g_k < g_s) ? g_st[g_k] == g_ns : g_st[g_k] == g_st0k)) \
    __CPROVER_decreases(g_n - AIDX(ancestor))
/* painting loop: runs only once the source was found at position g_s; everything below the cursor carries the new state, everything from the cursor on is as it was */
#define LOOP_prop_paint __CPROVER_assigns(c, __CPROVER_object_whole(g_st)) \
    __CPROVER_loop_invariant(g_s >= 1 && g_s < g_n && ancestor == CPTR(g_s) && c != NULL && CIDX(c) <= g_s && WF(c) && (g_k < CIDX(c) ? g_st[g_k] == g_ns : g_st[g_k] == g_st0k)) \
    __CPROVER_decreases(g_s - CIDX(c))
#define LOOP_prop_1
#define LOOP_prop_2
#define LOOP_prop_3
#include "prop.inc"
size_t IN_n, IN_s, IN_k; uint32_t IN_ns, IN_st0;
void h_propagate_any(void) {
    g_n = IN_n = nondet_size_t(); __CPROVER_assume(g_n >= 1 && g_n <= NMAX); g_st = malloc(g_n * sizeof(uint32_t)); __CPROVER_assume(g_st != NULL);
    g_s = IN_s = nondet_size_t(); __CPROVER_assume(g_s <= 2 * NMAX); g_k = IN_k = nondet_size_t(); __CPROVER_assume(g_k < g_n); g_ns = IN_ns = nondet_u32();
#ifdef SRC_ANCESTOR
    __CPROVER_assume(g_s >= 1 && g_s < g_n);
    __CPROVER_assume(g_st[g_s] == g_ns);        /* caller invariant: the disseminator walks only while the source carries new_state (it backs down otherwise: job walk.disseminator) */
#else
    __CPROVER_assume(!(g_s >= 1 && g_s < g_n));
#endif
    g_st0k = g_st[g_k]; uint32_t st00 = IN_st0 = g_st[0];
    propagate_task_group_state(CPTR(0), CPTR(g_s), g_ns);
    bool anc = g_s >= 1 && g_s < g_n;                                   /* the source is a proper ancestor of ctx */
    if (anc && g_k == 0) OBLIGATION(g_st[0] == g_ns, "C04.propagate: a context that descends from the source carries the new state afterwards (any depth of the tree)");
    if (anc && st00 != g_ns && g_k < g_s) OBLIGATION(g_st[g_k] == g_ns, "C04.propagate: every context on the path from ctx up to (not including) the source is marked (they descend from the source as well)");
    if (anc && g_k >= g_s) OBLIGATION(g_st[g_k] == g_st0k, "C04.propagate: the source itself and its ancestors are never marked by a propagation");
    if (anc && st00 == g_ns) OBLIGATION(g_st[g_k] == g_st0k, "C04.propagate: a context that already carries the new state is left alone, and so is its chain");
    if (!anc) OBLIGATION(g_st[g_k] == g_st0k, "C04.propagate: when the source is not an ancestor of ctx (ctx itself, a sibling, a descendant, another tree, or ctx is isolated) nothing is written");
    VACUITY_END();
}
#endif

#ifdef BINDIMPL
/* binder vs ONE canceller of the parent.  Canceller: (1) sets parent.cancel, then (2) walks the contexts registered at that moment and marks descendants. */
static struct tgc Par, Child; bool reg, p_set, p_hint, p_skip, p_walked;
/* the canceller's steps in the order of its code: cancel_group_execution exchanges the flag (job cancel.one_winner), then the disseminator reads the child hint and skips the whole
   propagation when it is not set (job walk.disseminator), else walks every registered context */
static void canceller_steps(bool force) {
    if (!p_set && (force || nondet_bool())) { Par.my_cancellation_requested = 1; p_set = true; }
    if (p_set && !p_hint && (force || nondet_bool())) { p_hint = true; p_skip = Par.my_may_have_children != may_have_children; }
    if (p_hint && !p_walked && (force || nondet_bool())) { p_walked = true; if (!p_skip && reg && Child.my_parent == &Par) Child.my_cancellation_requested = 1; }
}
static void interfere(void) { canceller_steps(false); }
#define ATOMIC_LOAD_AT(site, f) ({ interfere(); (f); })
#ifdef ATOMIC_COPY   /* job bind.no_missed_cancel.atomic_copy: the state copy `child.store(parent.load())` taken as one step */
#define ATOMIC_STORE_AT(site, f, v) do { uint32_t v_ = (v); (f) = v_; } while (0)
#else                /* the real thing: a load and a store, the canceller may run in between (finding F6) */
#define ATOMIC_STORE_AT(site, f, v) do { uint32_t v_ = (v); interfere(); (f) = v_; } while (0)
#endif
#define ATOMIC_XCHG_AT(site, f, v) (0)
#define ATOMIC_CAS_AT(site, f, e, d) (0)
#define STUB_propagate(c, s) ((void)0)
#define STUB_copy_fp_settings(a, b) ((void)0)
static void STUB_register_with(struct tgc *c, struct thread_data *td) { interfere(); reg = true; interfere(); }
#define LOCK_MUTEX(m) ((void)0)
#define UNLOCK_MUTEX(m) ((void)0)
#define LIST_PUSH_FRONT(l, c) ((void)0)
#define STUB_bind_to_impl(a, b) ((void)0)
#define LOOP_prop_1
#define LOOP_prop_2
#define P_STORE(c, v) ((c)->my_cancellation_requested = (v))
#include "tgc.inc"
void h_bind_impl(void) {
    struct thread_data td; td.current_context = &Par; td.default_ctx = NULL;
    Par.my_parent = NULL; Par.my_cancellation_requested = nondet_bool(); Par.my_may_have_children = nondet_uchar(); p_set = Par.my_cancellation_requested; p_hint = p_set ? nondet_bool() : false; p_skip = p_hint ? nondet_bool() : false; p_walked = p_hint ? nondet_bool() : false;
    __CPROVER_assume(!p_hint || p_skip || Par.my_may_have_children == may_have_children);      /* the hint is only ever set: a canceller that saw it set reads it set now */
    Child.my_parent = NULL; Child.my_cancellation_requested = 0; Child.my_state = state_locked; Child.my_traits.fp_settings = nondet_bool(); Child.my_traits.bound = true; reg = false;
    bind_to_impl(&Child, &td);
    canceller_steps(true);                      /* let a canceller of the parent finish */
    OBLIGATION(Child.my_parent == &Par && reg && Par.my_may_have_children == may_have_children, "C04.bind: the context is attached to the running context and registered");
    OBLIGATION(Child.my_cancellation_requested == 1, "C04.bind: a cancellation of the parent that races with the binding is not missed: the bound child ends cancelled (registration first, state copy second)");
    OBLIGATION(!p_skip || Child.my_cancellation_requested == 1, "C04.bind: a canceller that skipped the propagation because the parent had no child hint yet is made up for by the binder (hint first, state copy afterwards)");
    VACUITY_END();
}
#endif

#ifdef BINDTO
static struct tgc X; unsigned long gBinders; bool meBinder; int g_impl_calls;
#define BINV ((X.my_state == state_created ? gBinders == 0 : 1) && (X.my_state == state_locked) == (gBinders == 1) && gBinders <= 1 && gBinders >= (unsigned long)meBinder && X.my_state <= state_bound)
static void interfere(void) { uint8_t o = X.my_state; X.my_state = nondet_uchar(); gBinders = nondet_ulong(); __CPROVER_assume(BINV);
    __CPROVER_assume(!meBinder || X.my_state == state_locked);                 /* only the binder leaves the locked state */
    __CPROVER_assume(!(o == state_isolated || o == state_bound) || X.my_state == o);      /* a final state is final */
    __CPROVER_assume(X.my_state >= o); }                                                     /* created -> locked -> isolated|bound, never back */
#define ATOMIC_LOAD_AT(site, f) ({ interfere(); (f); })
#define ATOMIC_CAS_AT(site, f, e, d) ({ interfere(); int o_ = (f); bool r_ = (o_ == *(e)); if (r_) { (f) = (d); gBinders++; meBinder = true; } else *(e) = o_; __CPROVER_assert(BINV, "guarantee: one binder, at " #site); r_; })
#define ATOMIC_STORE_AT(site, f, v) do { interfere(); __CPROVER_assert(meBinder, "guarantee: only the binder publishes the final state, at " #site); (f) = (v); gBinders--; meBinder = false; __CPROVER_assert(BINV, "guarantee: INV at " #site); } while (0)
#define ATOMIC_XCHG_AT(site, f, v) (0)
#define STUB_propagate(c, s) ((void)0)
#define STUB_copy_fp_settings(a, b) ((void)0)
#define STUB_register_with(a, b) ((void)0)
#define LOCK_MUTEX(m) ((void)0)
#define UNLOCK_MUTEX(m) ((void)0)
#define LIST_PUSH_FRONT(l, c) ((void)0)
static void STUB_bind_to_impl(struct tgc *c, struct thread_data *td) { g_impl_calls++; OBLIGATION(meBinder, "C04.bind: the binding runs only in the thread that won created->locked"); }
#define LOOP_prop_1
#define LOOP_prop_2
#define P_STORE(c, v) ((c)->my_cancellation_requested = (v))
#include "tgc.inc"
void h_bind_to(void) {
    struct tgc def, cur; struct thread_data td; td.default_ctx = &def; td.current_context = nondet_bool() ? &def : &cur;
    X.my_state = nondet_uchar(); gBinders = nondet_ulong(); meBinder = false; g_impl_calls = 0; X.my_traits.bound = nondet_bool(); X.my_traits.fp_settings = nondet_bool(); X.my_parent = NULL;
    __CPROVER_assume(BINV);
    bool was_created = X.my_state == state_created;
    bind_to(&X, &td);
    interfere();
    OBLIGATION(X.my_state == state_isolated || X.my_state == state_bound, "C04.bind: bind_to returns only once the context is bound or isolated");
    OBLIGATION(g_impl_calls <= 1 && !meBinder, "C04.bind: the binding runs at most once in this thread and the lock state is left");
    VACUITY_END();
}
#endif

#if defined(DISSEM) || defined(TDWALK)
/* The propagator.  Lists are represented as index sequences over arrays (members pairwise distinct by construction); mutexes are ghost ints (0 free / 1 held). */
#define NMAX ((size_t)1 << 12)
struct tlist { size_t n; struct thread_data *base; };
struct dissem { int my_threads_list_mutex; struct tlist *my_threads_list; };
#define LIST_SIZE(l) ((l)->n)
#define LOCK_MUTEX(m) do { __CPROVER_assert((m) == 0, "C04.walk: the mutex is free when it is taken (no self-deadlock)"); (m) = 1; } while (0)
#define UNLOCK_MUTEX(m) do { __CPROVER_assert((m) == 1, "C04.walk: only a held mutex is released"); (m) = 0; } while (0)
#define ATOMIC_XCHG_AT(site, f, v) (0)
#define ATOMIC_CAS_AT(site, f, e, d) (0)
#define STUB_propagate(c, s) ((void)0)
#define STUB_copy_fp_settings(a, b) ((void)0)
#define STUB_register_with(a, b) ((void)0)
#define STUB_bind_to_impl(a, b) ((void)0)
#define LIST_PUSH_FRONT(l, c) ((void)0)
static void interfere(void) {}
size_t g_k;
#endif

#ifdef DISSEM
/* cancellation_disseminator::propagate_task_group_state: one propagation = [advance the global epoch, then walk EVERY registered thread's list], all of it inside one critical
   section that (a) keeps the thread list stable and (b) excludes the slow path of bind_to_impl, whose re-copy of the parent's state is only correct once no propagation is in flight. */
static struct dissem D; static struct tlist TL; int g_bumps, g_walks_k; bool g_walked_any;
#define LIST_AT(l, i) (&(l)->base[i])
#define ATOMIC_LOAD_AT(site, f) (f)
#define ATOMIC_STORE_AT(site, f, v) ((f) = (v))
#define IN_SECTION (D.my_threads_list_mutex == 1)
#define ATOMIC_PREINC_AT(site, x) (__CPROVER_assert(IN_SECTION, "C04.walk: the epoch is advanced inside the propagation section"), __CPROVER_assert(!g_walked_any, "C04.walk: the global epoch is advanced BEFORE any thread's list is walked"), g_bumps++, ++(x))
static void td_propagate(struct thread_data *t, struct tgc *src, uint32_t ns) {
    __CPROVER_assert(IN_SECTION, "C04.walk: every list walk happens inside the propagation section (the thread list cannot change under the walk)");
    __CPROVER_assert(BINDER_SLOW_MUTEX == 1, "C04.bind: the whole propagation (epoch advance and every list walk) runs under the mutex that bind_to_impl's slow path takes - otherwise the slow path's re-copy of the parent's state can run while the parent is still unmarked and the child's list was already walked");
    __CPROVER_assert(g_bumps == 1, "C04.walk: the epoch was advanced exactly once before this walk");
    g_walked_any = true; if (t == &TL.base[g_k]) g_walks_k++;
}
#define LOOP_dis_1
#define LOOP_dis_2
#define LOOP_dis_threads __CPROVER_assigns(it_, g_walks_k, g_walked_any) __CPROVER_loop_invariant(it_ <= TL.n && g_walks_k == (it_ > g_k ? 1 : 0) && g_bumps == 1 && D.my_threads_list_mutex == 1) __CPROVER_decreases(TL.n - it_)
#define LOOP_prop_1
#define LOOP_prop_2
#define P_STORE(c, v) ((c)->my_cancellation_requested = (v))
#include "dissem.inc"
void h_dissem(void) {
    TL.n = nondet_size_t(); __CPROVER_assume(TL.n <= NMAX); TL.base = malloc((TL.n ? TL.n : 1) * sizeof(struct thread_data)); __CPROVER_assume(TL.base != NULL);
    D.my_threads_list = &TL; D.my_threads_list_mutex = 0; the_context_state_propagation_mutex = 0; g_bumps = 0; g_walks_k = 0; g_walked_any = false;
    g_k = nondet_size_t(); __CPROVER_assume(g_k < TL.n || TL.n == 0);
    struct tgc src; src.my_may_have_children = nondet_uchar(); src.my_cancellation_requested = nondet_u32(); uint32_t ns = nondet_u32(); uintptr_t e0 = the_context_state_propagation_epoch = nondet_uintptr_t();
    bool r = dissem_propagate(&D, &src, ns);
    OBLIGATION(D.my_threads_list_mutex == 0 && the_context_state_propagation_mutex == 0, "C04.walk: every mutex is released on every path");
    /* the bool result is not looked at by any caller (both forwarders return void): no obligation on it */
    if (src.my_cancellation_requested != ns) OBLIGATION(g_bumps == 0 && !g_walked_any, "C04.walk: a propagator whose source state was changed meanwhile backs down without touching anything");
    else if (src.my_may_have_children != may_have_children) OBLIGATION(g_bumps == 0 ? !g_walked_any : (g_bumps == 1 && (TL.n == 0 || g_walks_k == 1)), "C04.walk: a context that never had children needs no propagation (if one is made all the same, it is a complete one)");
    else { OBLIGATION(g_bumps == 1 && the_context_state_propagation_epoch == e0 + 1, "C04.walk: one propagation advances the global epoch exactly once");
           OBLIGATION(TL.n == 0 || g_walks_k == 1, "C04.walk: EVERY registered thread's context list is walked, exactly once (any number of threads)"); }
    VACUITY_END();
}
#endif

#ifdef TDWALK
/* thread_data::propagate_task_group_state: under the list's mutex, every context of the list that is a descendant of the source ends marked; only then the list's epoch is synced. */
static struct clist L; static struct tgc *CT; static bool *g_desc; uint32_t g_ns; uint32_t g_flag0k; bool g_desc_k; int g_syncs;
#define LIST_AT(l, i) (&CT[i])
#define P_STORE(c, v) ((c)->my_cancellation_requested = (v))
#define ATOMIC_LOAD_AT(site, f) (f)
#define ATOMIC_PREINC_AT(site, x) (++(x))
#define MARKED_K (!g_desc_k || CT[g_k].my_cancellation_requested == g_ns)
#define ATOMIC_STORE_AT(site, f, v) do { __CPROVER_assert(L.m_mutex == 1, "C04.walk: the list epoch is synced while the list mutex is still held"); \
    __CPROVER_assert(MARKED_K, "C04.walk: the list epoch is synced only AFTER every descendant in the list has been marked (a binder that reads the synced epoch sees the marks)"); \
    __CPROVER_assert((v) == the_context_state_propagation_epoch, "C04.walk: the list epoch is synced to the current global epoch"); (f) = (v); g_syncs++; } while (0)
/* contract of task_group_context_impl::propagate_task_group_state (job propagate.path): marks ctx if it descends from src (and ancestors of ctx below src, which descend from src too); touches nothing else */
static void propagate_task_group_state(struct tgc *c, struct tgc *src, uint32_t ns) {
    __CPROVER_assert(L.m_mutex == 1, "C04.walk: contexts are examined under the list mutex (registration cannot interleave)");
    size_t i = (size_t)(c - CT); if (g_desc[i]) c->my_cancellation_requested = ns;
    if (g_desc_k && nondet_bool()) CT[g_k].my_cancellation_requested = ns;
}
#define LOOP_tdp_1
#define LOOP_tdp_2
#define LOOP_tdp_contexts __CPROVER_assigns(it, __CPROVER_object_whole(CT)) __CPROVER_loop_invariant(it <= L.n && L.m_mutex == 1 && g_syncs == 0 && (it > g_k ? MARKED_K : 1) && (g_desc_k ? (CT[g_k].my_cancellation_requested == g_flag0k || CT[g_k].my_cancellation_requested == g_ns) : CT[g_k].my_cancellation_requested == g_flag0k)) __CPROVER_decreases(L.n - it)
#include "tdwalk.inc"
void h_tdwalk(void) {
    L.n = nondet_size_t(); __CPROVER_assume(L.n >= 1 && L.n <= NMAX); CT = malloc(L.n * sizeof(struct tgc)); g_desc = malloc(L.n * sizeof(bool)); __CPROVER_assume(CT && g_desc);
    L.m_mutex = 0; L.epoch = nondet_uintptr_t(); the_context_state_propagation_epoch = nondet_uintptr_t(); g_syncs = 0;
    g_k = nondet_size_t(); __CPROVER_assume(g_k < L.n); g_ns = nondet_u32(); g_flag0k = CT[g_k].my_cancellation_requested; g_desc_k = g_desc[g_k];
    struct thread_data td; td.my_context_list = &L; struct tgc src;
    td_propagate(&td, &src, g_ns);
    OBLIGATION(L.m_mutex == 0, "C04.walk: the list mutex is released");
    OBLIGATION(MARKED_K, "C04.walk: every context of the list that descends from the source is marked (any list length)");
    OBLIGATION(g_desc_k || CT[g_k].my_cancellation_requested == g_flag0k, "C04.walk: a context that does not descend from the source is left alone");
    OBLIGATION(g_syncs == 1 && L.epoch == the_context_state_propagation_epoch, "C04.walk: the list's epoch is synced with the global one, once");
    VACUITY_END();
}
#endif

#ifdef BINDGA
/* bind_to_impl, parent WITH a grand-ancestor: speculative copy validated by the epoch counters, slow path under a mutex.  The binder's real code runs against ONE propagation
   started by a cancel of an ancestor G of the parent P; the propagator's steps are the contract proved in dissem.protocol / td.walk (epoch advance first, then every list once:
   marks under the list mutex, epoch sync after the marks).  Lists: LP holds P, LB is the binder's own (they may be the same list). */
static struct tgc G, Other, P, C; static struct clist LP_, LB_; struct clist *LP, *LB; bool desc, reg, binder_holds;
int pi;  bool p_first;                                      /* progress of the propagation: 0 not started, 1 epoch advanced, 2 first list marked, 3 first list synced, 4 second list marked, 5 complete */
static void walk_marks(struct clist *l) {                   /* one list walk: everything registered in the list that descends from G gets marked (the chain up to G) */
    if (l == LP && desc) P.my_cancellation_requested = 1;
    if (l == LB && reg && C.my_parent == &P && desc) { C.my_cancellation_requested = 1; P.my_cancellation_requested = 1; }
}
/* the canceller before the propagation proper (cancel_group_execution, then the head of the disseminator): ps 0 nothing, 1 the source's flag is set (the winning exchange), 2 the source's
   child hint was read - a source without the hint is not propagated at all (skip).  The source is the grand-ancestor G (its hint is set: it has a bound child) or the parent P itself. */
bool src_p, skip; int ps;
static void pre_advance(int to) {
    if (ps < 1 && to >= 1) { if (src_p) P.my_cancellation_requested = 1; else G.my_cancellation_requested = 1; ps = 1; }
    if (ps < 2 && to >= 2) { skip = src_p && P.my_may_have_children != may_have_children; ps = 2; }
}
static void pi_advance(int to) {                            /* the steps are taken in order; the order of the two lists is arbitrary (p_first) */
    struct clist *l1 = p_first ? LP : LB, *l2 = p_first ? LB : LP;
    if (to >= 1) pre_advance(2);
    if (skip) return;
    if (pi < 1 && to >= 1) { the_context_state_propagation_epoch++; pi = 1; }
    if (pi < 2 && to >= 2) { walk_marks(l1); pi = 2; }
    if (pi < 3 && to >= 3) { l1->epoch = the_context_state_propagation_epoch; pi = 3; }
    if (pi < 4 && to >= 4) { if (l2 != l1) walk_marks(l2); pi = 4; }
    if (pi < 5 && to >= 5) { l2->epoch = the_context_state_propagation_epoch; pi = 5; }
}
#define PI_IN_FLIGHT (pi >= 1 && pi <= 4)
static void interfere(void) {
    int tp = nondet_int(); __CPROVER_assume(tp >= ps && tp <= 2); pre_advance(tp);
    int to = nondet_int(); __CPROVER_assume(to >= pi && to <= 5); if (ps < 2) to = pi;
    if (PROP_HOLDS_BINDER_MUTEX && binder_holds) { if (pi == 0) to = 0; }      /* a propagation that needs the mutex the binder holds cannot start */
    pi_advance(to);
}
#define ATOMIC_LOAD_AT(site, f) ({ interfere(); (f); })
#define ATOMIC_STORE_AT(site, f, v) do { uint32_t v_ = (v); interfere(); (f) = v_; } while (0)
#define ATOMIC_XCHG_AT(site, f, v) (0)
#define ATOMIC_CAS_AT(site, f, e, d) (0)
#define STUB_propagate(c, s) ((void)0)
#define STUB_copy_fp_settings(a, b) ((void)0)
#define STUB_bind_to_impl(a, b) ((void)0)
/* the slow-path mutex: blocks while a propagation that holds the same mutex is in flight, and keeps a new one from starting */
#define LOCK_MUTEX(m) do { interfere(); __CPROVER_assume(!(PROP_HOLDS_BINDER_MUTEX && PI_IN_FLIGHT)); binder_holds = true; } while (0)
#define UNLOCK_MUTEX(m) do { binder_holds = false; interfere(); } while (0)
#define LIST_PUSH_FRONT(l, c) do { __CPROVER_assert((l) == LB && (c) == &C, "C04.bind: the context is registered in the binding thread's list"); reg = true; } while (0)
void register_with(struct tgc *ctx, struct thread_data *td);
#define STUB_register_with(c, td) do { interfere(); register_with((c), (td)); interfere(); } while (0)
#define LOOP_prop_1
#define LOOP_prop_2
#define P_STORE(c, v) ((c)->my_cancellation_requested = (v))
#include "tgc.inc"
void h_bind_ga(void) {
    LP = &LP_; LB = nondet_bool() ? &LP_ : &LB_;
    struct thread_data td; td.current_context = &P; td.default_ctx = NULL; td.my_context_list = LB;
    src_p = nondet_bool(); ps = 0; skip = false;
    desc = src_p ? true : nondet_bool(); G.my_parent = NULL; Other.my_parent = NULL; G.my_cancellation_requested = 0; Other.my_cancellation_requested = 0;
    P.my_parent = desc ? &G : &Other; P.my_context_list = LP; P.my_may_have_children = nondet_uchar(); P.my_cancellation_requested = 0;
    the_context_state_propagation_epoch = nondet_uintptr_t(); LP->epoch = nondet_uintptr_t(); LB->epoch = nondet_uintptr_t();
    __CPROVER_assume(the_context_state_propagation_epoch < ((uintptr_t)1 << 62) && LP->epoch <= the_context_state_propagation_epoch && LB->epoch <= the_context_state_propagation_epoch);
    pi = 0; p_first = nondet_bool(); reg = false; binder_holds = false;
    if (nondet_bool()) pi_advance(5);                       /* the propagation may also be long over */
    C.my_parent = NULL; C.my_cancellation_requested = 0; C.my_state = state_locked; C.my_traits.fp_settings = nondet_bool(); C.my_traits.bound = true; C.my_context_list = NULL;
    bind_to_impl(&C, &td);
    pi_advance(5);                                          /* let the propagation finish */
    OBLIGATION(!skip || C.my_cancellation_requested == 1, "C04.bind: a canceller of the parent that skipped the propagation because the parent had no child hint yet is made up for by the binder (hint first, state copy afterwards)");
    OBLIGATION(C.my_parent == &P && reg && C.my_context_list == LB && !binder_holds, "C04.bind: the context is attached beneath the running context and registered in the binder's list; the slow-path mutex is released");
    OBLIGATION(!desc || (P.my_cancellation_requested == 1 && C.my_cancellation_requested == 1), "C04.bind: once the cancel of a grand-ancestor and the binding have both completed, the new context is cancelled like its parent - whatever the interleaving of the propagation with the speculative copy, the registration, the epoch check and the slow path");
    OBLIGATION(desc || C.my_cancellation_requested == 0, "C04.bind: a context bound beneath a tree that is not cancelled stays uncancelled");
    VACUITY_END();
}
#endif

#ifdef ILIST
/* intrusive_list_base::{push_front, remove, empty, assert_ok} on REAL nodes, a window of the list: head, the nodes next to the place of the operation (A in front, B behind), and Z standing
   for everything further away (never touched).  T is intrusive_list_node itself (context_list) or derives from it (thread_data): node(val) is val. */
struct ilist { struct ilnode my_head; size_t my_size; };
#define NODE(v) (v)
#include "ilist.inc"
static struct ilist Lst; static struct ilnode A, B, Z, V;
#define HEAD (&Lst.my_head)
#define REP_OK ((Lst.my_head.my_next_node == HEAD) == (Lst.my_size == 0) && (Lst.my_head.my_prev_node == HEAD) == (Lst.my_size == 0))
void h_ilist_push_front(void) {
    __CPROVER_havoc_object(&A); __CPROVER_havoc_object(&B); __CPROVER_havoc_object(&Z);
    size_t n0 = Lst.my_size = nondet_size_t(); __CPROVER_assume(n0 < SIZE_MAX);
    if (n0 == 0) { Lst.my_head.my_next_node = HEAD; Lst.my_head.my_prev_node = HEAD; }
    else { Lst.my_head.my_next_node = &A; A.my_prev_node = HEAD;
           if (n0 == 1) { A.my_next_node = HEAD; Lst.my_head.my_prev_node = &A; } else { A.my_next_node = &B; B.my_prev_node = &A; Lst.my_head.my_prev_node = n0 == 2 ? &B : &Z; if (n0 == 2) B.my_next_node = HEAD; } }
    V.my_prev_node = &V; V.my_next_node = &V;                 /* a context's node is self-linked by initialize (job lifetime.initialize) and a context is registered once (job bind.one_binder) */
    struct ilnode a0 = A, b0 = B, z0 = Z; struct ilnode *last0 = Lst.my_head.my_prev_node;
    ilist_push_front(&Lst, &V);
    OBLIGATION(Lst.my_head.my_next_node == &V && V.my_prev_node == HEAD, "C04.registry: the new node is the first of the list, linked to the head in both directions");
    OBLIGATION(n0 == 0 ? (V.my_next_node == HEAD && Lst.my_head.my_prev_node == &V) : (V.my_next_node == &A && A.my_prev_node == &V && Lst.my_head.my_prev_node == last0),
               "C04.registry: the former first node follows the new one, linked in both directions - a walk from the head reaches the new node and then every node it reached before");
    OBLIGATION(A.my_next_node == a0.my_next_node && B.my_prev_node == b0.my_prev_node && B.my_next_node == b0.my_next_node && Z.my_prev_node == z0.my_prev_node && Z.my_next_node == z0.my_next_node,
               "C04.registry: no other link of the list is touched by an insertion");
    OBLIGATION(Lst.my_size == n0 + 1 && REP_OK, "C04.registry: the size counts the linked nodes; the list is empty exactly when its size is 0");
    VACUITY_END();
}
void h_ilist_remove(void) {
    __CPROVER_havoc_object(&A); __CPROVER_havoc_object(&B); __CPROVER_havoc_object(&Z);
    size_t n0 = Lst.my_size = nondet_size_t(); __CPROVER_assume(n0 >= 1);
    bool hasA = nondet_bool(), hasB = nondet_bool();           /* V's predecessor is A or the head, its successor B or the head */
    __CPROVER_assume((n0 == 1) == (!hasA && !hasB));
    struct ilnode *P = hasA ? &A : HEAD, *N = hasB ? &B : HEAD;
    V.my_prev_node = P; V.my_next_node = N; P->my_next_node = &V; N->my_prev_node = &V;
    if (hasA) { bool first = nondet_bool(); A.my_prev_node = first ? HEAD : &Z; Lst.my_head.my_next_node = first ? &A : &Z; }
    if (hasB) { bool last = nondet_bool(); B.my_next_node = last ? HEAD : &Z; Lst.my_head.my_prev_node = last ? &B : &Z; }
    struct ilnode a0 = A, b0 = B, z0 = Z; struct ilnode *first0 = Lst.my_head.my_next_node, *last0 = Lst.my_head.my_prev_node;
    ilist_remove(&Lst, &V);
    OBLIGATION(P->my_next_node == N && N->my_prev_node == P, "C04.registry: the neighbours of the removed node are linked to each other in both directions - a walk no longer reaches the removed node and still reaches every other");
    OBLIGATION((!hasA || (A.my_prev_node == a0.my_prev_node && Lst.my_head.my_next_node == first0)) && (!hasB || (B.my_next_node == b0.my_next_node && Lst.my_head.my_prev_node == last0))
               && Z.my_prev_node == z0.my_prev_node && Z.my_next_node == z0.my_next_node, "C04.registry: no other link of the list is touched by a removal");
    OBLIGATION(Lst.my_head.my_next_node != &V && Lst.my_head.my_prev_node != &V && (!hasA || A.my_next_node != &V) && (!hasB || B.my_prev_node != &V), "C04.registry: nothing in the list points to the removed node any more");
    OBLIGATION(Lst.my_size == n0 - 1 && REP_OK, "C04.registry: the size counts the linked nodes; the list is empty exactly when its size is 0");
    VACUITY_END();
}
void h_ilist_empty(void) {
    Lst.my_size = nondet_size_t(); Lst.my_head.my_next_node = nondet_bool() ? HEAD : &A; Lst.my_head.my_prev_node = nondet_bool() ? HEAD : &A; __CPROVER_assume(REP_OK);   /* kept by push_front and remove (jobs above) */
    bool r = ilist_empty(&Lst);
    OBLIGATION(r == (Lst.my_size == 0), "C04.registry: empty() is true exactly when no node is linked");
    VACUITY_END();
}
#endif

#ifdef REGISTRY
/* The per-thread registry of bound contexts: context_list::{push_front, remove, orphan, destroy} and task_group_context_impl::{register_with, destroy} - real code down to the base
   class list operations, which are contract stubs here (proved on real nodes in registry.ilist.*).  The list is a heap object that the deallocation stub really frees: any later
   access is a pointer-check failure.  Ghost: g_in = THE watched context K is linked in the list; g_cnt/g_orph = copies of size and orphaned flag that survive the list. */
static struct clist *L; static struct tgc K, O; static struct eptr E;
bool g_in, g_orph, g_owns; size_t g_cnt; int g_freed, g_dtors, g_removes, g_pushes, g_acq, g_edestroy, g_envd;
#ifndef THREADS
#define THREAD_EXIT_HOOK(p) ((void)0)
#else
bool g_tin; int g_lacq;
#define THREAD_EXIT_HOOK(p) if ((void *)(p) == (void *)&L->m_mutex) g_lacq++; __CPROVER_assert((void *)(p) != (void *)&L->m_mutex || !g_tin, "C04.registry: a thread's context list is orphaned only after the thread was taken out of the disseminator's thread list - a propagation walk never reaches the list of a thread that is gone")
#endif
#define SLOCK_ACQUIRE(m) do { THREAD_EXIT_HOOK(&(m)); __CPROVER_assert(g_freed == 0, "C04.registry: a freed list is never locked again"); __CPROVER_assert(!g_owns && (m) == 0, "C04.registry: the list mutex is free when it is taken (no self-deadlock)"); (m) = 1; g_owns = true; g_acq++; } while (0)
#define SLOCK_RELEASE(m) do { __CPROVER_assert(g_owns && (m) == 1, "C04.registry: only a held mutex is released"); (m) = 0; g_owns = false; } while (0)
#define SLOCK_SCOPE_EXIT(m) do { if (g_owns) { (m) = 0; g_owns = false; } } while (0)          /* ~scoped_lock: unlocks only if the lock still owns the mutex */
#define UNDER_LOCK(self) __CPROVER_assert((self) == L && g_freed == 0 && (self)->m_mutex == 1 && g_owns, "C04.registry: a context list is read and changed only under its own mutex - the mutex the propagation walk holds, so a walk never meets a half-linked or a removed context")
static void ILIST_REMOVE(struct clist *self, struct ilnode *val) { UNDER_LOCK(self);
    __CPROVER_assert(val == &K.my_node ? g_in : self->n >= (size_t)1 + g_in, "C04.registry: only a context that is in the list is removed from it");
    self->n--; g_cnt--; g_removes++; if (val == &K.my_node) g_in = false; }
static void ILIST_PUSH_FRONT(struct clist *self, struct ilnode *val) { UNDER_LOCK(self);
    __CPROVER_assert(!self->orphaned, "C04.registry: nothing is registered in the list of a thread that is gone");
    __CPROVER_assert(val != &K.my_node || !g_in, "C04.registry: a context is in at most one list, at most once");
    self->n++; g_cnt++; g_pushes++; if (val == &K.my_node) g_in = true; }
static bool ILIST_EMPTY(struct clist *self) { UNDER_LOCK(self); return self->n == 0; }
static void CLIST_DTOR(struct clist *self) { __CPROVER_assert(self == L && g_freed == 0, "C04.registry: the list is freed at most once");
    __CPROVER_assert(!g_owns && self->m_mutex == 0, "C04.registry: the list mutex is released before the list is destroyed");
    __CPROVER_assert(self->orphaned && self->n == 0, "C04.registry: a list is destroyed only when its thread is gone AND no context is left in it");
    g_dtors++; }
static void STUB_cache_aligned_deallocate(struct clist *self) { __CPROVER_assert(self == L && g_freed == 0 && g_dtors == 1, "C04.registry: the list is freed at most once, after its destructor");
    g_freed++; free(self); }
#define ATOMIC_LOAD_AT(site, f) (f)
#define HOOK_DEAD(fp) __CPROVER_assert((void *)(fp) != (void *)&K.my_state || !g_in, "C04.registry: a context is declared dead only after it left its thread's list (a propagation walk never visits a destroyed context)")
#define ATOMIC_STORE_AT(site, f, v) do { HOOK_DEAD(&(f)); (f) = (v); } while (0)
#define POISON_POINTER(x) __CPROVER_assert(!g_in, "C04.registry: the fields of a context are invalidated only after it left its thread's list")
static void STUB_cpu_ctl_env_dtor(struct tgc *c) { g_envd++; }
static void STUB_exception_destroy(struct eptr *e) { __CPROVER_assert(e == &E && E.live == 1, "C04.lifetime: only a live exception holder is released"); E.live = 0; g_edestroy++; }
static void STUB_get_env(struct tgc *c) { g_envd++; }
#include "clist.inc"
#include "tgcl.inc"
static size_t n0; static bool in0, orph0;
static void mk_list(bool may_be_orphaned) {
    L = malloc(sizeof(struct clist)); __CPROVER_assume(L != NULL);
    n0 = g_cnt = L->n = nondet_size_t(); __CPROVER_assume(n0 < ((size_t)1 << 60)); orph0 = g_orph = L->orphaned = may_be_orphaned ? nondet_bool() : false; L->m_mutex = 0; L->epoch = nondet_uintptr_t();
    in0 = g_in = nondet_bool(); __CPROVER_assume(!g_in || n0 >= 1);
    __CPROVER_assume(!(orph0 && n0 == 0));                       /* such a list was freed already (invariant below) */
    g_owns = false; g_freed = g_dtors = g_removes = g_pushes = g_acq = g_edestroy = g_envd = 0;
}
/* invariant of the protocol, kept by every operation: the list is freed exactly when (orphaned && empty) became true */
#define FREED_IFF (g_freed == ((g_orph && g_cnt == 0) ? 1 : 0) && g_dtors == g_freed)
void h_clist_remove(void) {
    mk_list(true); struct ilnode *val = nondet_bool() ? &K.my_node : &O.my_node;
    __CPROVER_assume(val == &K.my_node ? g_in : n0 >= (size_t)1 + g_in);      /* the caller's context is in the list (task_group_context_impl::destroy: my_context_list != NULL) */
    clist_remove(L, val);
    OBLIGATION(g_removes == 1 && g_cnt == n0 - 1 && (val == &K.my_node ? !g_in : g_in == in0), "C04.registry: remove() takes exactly the given context out of the list");
    OBLIGATION(FREED_IFF, "C04.registry: the list of a thread that is gone is freed by the remove() that empties it, exactly once; a list that still has its thread or still holds a context is not freed");
    OBLIGATION(!g_owns && (g_freed || (L->m_mutex == 0 && L->n == n0 - 1 && L->orphaned == orph0)), "C04.registry: the list mutex is released on every path");
    VACUITY_END();
}
void h_clist_orphan(void) {
    mk_list(false);                                                            /* orphan() is called once per list, by ~thread_data (job registry.thread_exit) */
    clist_orphan(L); g_orph = true;
    OBLIGATION(g_removes == 0 && g_pushes == 0 && g_cnt == n0 && g_in == in0, "C04.registry: orphan() leaves the contexts in the list (they unregister themselves later)");
    OBLIGATION(FREED_IFF, "C04.registry: an empty list is freed by its departing thread, exactly once; a list that still holds contexts is left to the last remove()");
    OBLIGATION(!g_owns && (g_freed || (L->m_mutex == 0 && L->orphaned && L->n == n0)), "C04.registry: the list mutex is released on every path and the list is marked orphaned");
    VACUITY_END();
}
void h_clist_push_front(void) {
    mk_list(false); struct ilnode *val = nondet_bool() ? &K.my_node : &O.my_node;     /* only the owner thread registers, and it does so before it orphans the list */
    __CPROVER_assume(val != &K.my_node || !g_in);
    clist_push_front(L, val);
    OBLIGATION(g_pushes == 1 && g_removes == 0 && g_cnt == n0 + 1 && (val == &K.my_node ? g_in : g_in == in0), "C04.registry: push_front() puts exactly the given context into the list");
    OBLIGATION(FREED_IFF && g_freed == 0, "C04.registry: a list that has its thread is not freed");
    OBLIGATION(!g_owns && L->m_mutex == 0 && L->n == n0 + 1 && !L->orphaned, "C04.registry: the list mutex is released");
    VACUITY_END();
}
void h_register_with(void) {
    mk_list(false); __CPROVER_assume(!g_in); struct thread_data td; td.my_context_list = L;
    __CPROVER_havoc_object(&K); K.my_context_list = NULL;
    register_with(&K, &td);
    OBLIGATION(g_in && g_pushes == 1 && g_cnt == n0 + 1, "C04.registry: a context that is being bound is put into the binding thread's list (every propagation that takes the list mutex afterwards visits it)");
    OBLIGATION(K.my_context_list == L, "C04.registry: the context remembers the list it is in - its destruction unregisters it from that very list");
    OBLIGATION(!g_owns && L->m_mutex == 0 && g_freed == 0, "C04.registry: the list mutex is released");
    VACUITY_END();
}
void h_tgc_destroy(void) {
    mk_list(true); __CPROVER_havoc_object(&K);
    bool registered = nondet_bool();                                            /* invariant (register_with, initialize): my_context_list != NULL exactly when the context is in that list */
    K.my_context_list = registered ? L : NULL; __CPROVER_assume(g_in == registered); if (registered) K.my_state = state_bound; else __CPROVER_assume(K.my_state <= state_bound);
    bool exc = nondet_bool(); K.my_exception = exc ? &E : NULL; E.live = 1;
    tgc_destroy(&K);
    OBLIGATION(!g_in && g_removes == (registered ? 1 : 0) && g_pushes == 0 && g_cnt == n0 - (registered ? 1 : 0), "C04.registry: a bound context stays in its thread's list until its destruction, which takes it - and nothing else - out");
    OBLIGATION(K.my_state == state_dead, "C04.lifetime: a destroyed context ends in state dead");
    OBLIGATION(FREED_IFF && !g_owns && (g_freed || L->m_mutex == 0), "C04.registry: the last context to leave the list of a thread that is gone frees the list, exactly once; the mutex is released");
    OBLIGATION(g_edestroy == (exc ? 1 : 0) && E.live == (exc ? 0 : 1), "C04.lifetime: a stored exception holder is released exactly once");
    VACUITY_END();
}
void h_tgc_initialize(void) {
    __CPROVER_havoc_object(&K); bool fp = K.my_traits.fp_settings; g_envd = 0;
    tgc_initialize(&K);
    OBLIGATION(K.my_cancellation_requested == 0, "C04.lifetime: a new context is not cancelled");
    OBLIGATION(K.my_parent == NULL && K.my_context_list == NULL && K.my_state == state_created && K.my_may_have_children == 0, "C04.lifetime: a new context has no parent, is in no thread's list, has no child hint and is in state created (bind_to decides later)");
    OBLIGATION(K.my_node.my_next_node == &K.my_node && K.my_node.my_prev_node == &K.my_node, "C04.lifetime: the list node of a new context is self-linked (precondition of the registration)");
    OBLIGATION(K.my_exception == NULL && g_envd == (fp ? 1 : 0), "C04.lifetime: a new context holds no exception; FPU settings are captured only on request");
    VACUITY_END();
}
void h_tgc_reset(void) {
    __CPROVER_havoc_object(&K); struct tgc k0; bool exc = nondet_bool(); K.my_exception = exc ? &E : NULL; E.live = 1; g_edestroy = 0; __CPROVER_assume(K.my_cancellation_requested <= 1); k0 = K;      /* the flag is 0 or 1: written by initialize (0), cancel (exchange 1), propagation of 1, copies, reset (0) */
    bool was = tgc_is_cancelled(&K);
    OBLIGATION(was == (k0.my_cancellation_requested != 0), "C04.lifetime: is_group_execution_cancelled reports exactly the cancellation flag");
    tgc_reset(&K);
    OBLIGATION(K.my_cancellation_requested == 0 && !tgc_is_cancelled(&K), "C04.lifetime: reset takes the cancellation back");
    OBLIGATION(K.my_parent == k0.my_parent && K.my_context_list == k0.my_context_list && K.my_state == k0.my_state && K.my_may_have_children == k0.my_may_have_children
               && K.my_node.my_next_node == k0.my_node.my_next_node && K.my_node.my_prev_node == k0.my_node.my_prev_node,
               "C04.lifetime: reset leaves the context where it is in the tree and in its thread's list - a later cancellation of an ancestor still reaches it");
    OBLIGATION(K.my_exception == NULL && g_edestroy == (exc ? 1 : 0) && E.live == (exc ? 0 : 1), "C04.lifetime: reset releases a stored exception holder exactly once and forgets it");
    VACUITY_END();
}
#ifdef THREADS
/* The registry of threads (cancellation_disseminator::my_threads_list) and the order of events at thread exit.  The thread list is abstract (size + membership of THE watched thread T);
   the forwarders threading_control -> threading_control_impl -> cancellation_disseminator are real code. */
struct dissem { int my_threads_list_mutex; size_t n; }; struct tci { struct dissem *my_cancellation_disseminator; }; struct tc { struct tci *my_pimpl; };
struct arena { struct tc *my_threading_control; }; struct thread_dispatcher { struct tc *my_threading_control; };
static struct dissem D; static struct tci TCI; static struct tc TCo; static struct arena AR; static struct thread_dispatcher TDP; static struct thread_data T, T2;
size_t g_tn0; int g_tpush, g_tremove, g_fwd, g_td_dtor_done, g_td_freed, g_pool, g_leave; struct tgc *g_fwd_src; uint32_t g_fwd_ns; struct dissem *g_fwd_d;
#define T_UNDER_LOCK(self) __CPROVER_assert((self) == &D && (self)->my_threads_list_mutex == 1 && g_owns, "C04.registry: the disseminator's thread list is changed only under my_threads_list_mutex - the mutex a propagation holds from before its first list walk until after its last, so the set of lists it walks cannot change under it")
static void TLIST_PUSH_FRONT(struct dissem *self, struct thread_data *td) { T_UNDER_LOCK(self); __CPROVER_assert(td != &T || !g_tin, "C04.registry: a thread is registered at most once"); self->n++; g_tpush++; if (td == &T) g_tin = true; }
static void TLIST_REMOVE(struct dissem *self, struct thread_data *td) { T_UNDER_LOCK(self); __CPROVER_assert(td == &T ? g_tin : self->n >= (size_t)1 + g_tin, "C04.registry: only a registered thread is unregistered"); self->n--; g_tremove++; if (td == &T) g_tin = false; }
void dissem_register_thread(struct dissem *self, struct thread_data *td); void dissem_unregister_thread(struct dissem *self, struct thread_data *td);
#define STUB_dissem_register_thread dissem_register_thread
#define STUB_dissem_unregister_thread dissem_unregister_thread
static void STUB_dissem_propagate_task_group_state(struct dissem *d, struct tgc *src, uint32_t ns) { g_fwd++; g_fwd_d = d; g_fwd_src = src; g_fwd_ns = ns; }
static void STUB_pool_destroy(struct thread_data *td) { g_pool++; }
#define TD_POISON(self, f) ((void)0)
static void STUB_td_deallocate(struct thread_data *td) { __CPROVER_assert(td == &T && g_td_freed == 0 && g_lacq == 1, "C04.registry: the thread data is released once, after its context list was orphaned (exactly once)"); g_td_freed++; }
static void STUB_clear_thread_data(void) {}
static bool STUB_is_thread_data_set(struct thread_data *td) { return nondet_bool(); }
static void STUB_set_thread_data(struct thread_data *td) {}
static void STUB_notify_exit_observers(struct arena *a, struct thread_data *td) {}
static void STUB_leave_task_dispatcher(struct thread_data *td) { g_leave++; }
static void STUB_slot_release(struct thread_data *td) {}
static void STUB_on_thread_leaving(struct arena *a) {}
static void STUB_unregister_public_reference(struct tc *c) {}
#include "threads.inc"
static void mk_threads(bool registered) {
    TCI.my_cancellation_disseminator = &D; TCo.my_pimpl = &TCI; AR.my_threading_control = &TCo; TDP.my_threading_control = &TCo; D.my_threads_list_mutex = 0;
    g_tn0 = D.n = nondet_size_t(); __CPROVER_assume(g_tn0 < ((size_t)1 << 40)); g_tin = registered; __CPROVER_assume(!g_tin || g_tn0 >= 1);
    g_tpush = g_tremove = g_fwd = g_td_freed = g_pool = g_leave = 0; g_owns = false; g_lacq = 0;
}
void h_thread_register(void) {
    mk_threads(false); struct thread_data *td = nondet_bool() ? &T : &T2;
    tc_register_thread(&TCo, td);
    OBLIGATION(g_tpush == 1 && g_tremove == 0 && D.n == g_tn0 + 1 && g_tin == (td == &T), "C04.registry: register_thread puts exactly the given thread into the disseminator's list (every later propagation walks its context list)");
    OBLIGATION(!g_owns && D.my_threads_list_mutex == 0, "C04.registry: the thread list mutex is released");
    VACUITY_END();
}
void h_thread_unregister(void) {
    mk_threads(true); struct thread_data *td = nondet_bool() ? &T : &T2; __CPROVER_assume(td == &T || g_tn0 >= 2);
    tc_unregister_thread(&TCo, td);
    OBLIGATION(g_tremove == 1 && g_tpush == 0 && D.n == g_tn0 - 1 && g_tin == (td != &T), "C04.registry: unregister_thread takes exactly the given thread out of the disseminator's list");
    OBLIGATION(!g_owns && D.my_threads_list_mutex == 0, "C04.registry: the thread list mutex is released");
    VACUITY_END();
}
void h_forward_propagate(void) {
    mk_threads(nondet_bool()); struct tgc src; uint32_t ns = nondet_u32();
    tc_propagate_task_group_state(&TCo, &src, ns);
    OBLIGATION(g_fwd == 1 && g_fwd_d == &D && g_fwd_src == &src && g_fwd_ns == ns, "C04.cancel: the propagation request of the winning canceller reaches the disseminator exactly once, with the same source context and the same new state");
    VACUITY_END();
}
static void thread_exit_post(void) {
    OBLIGATION(!g_tin && g_tremove == 1 && g_tpush == 0, "C04.registry: a departing thread is taken out of the disseminator's thread list, once");
    OBLIGATION(g_lacq == 1 && (g_freed || L->orphaned), "C04.registry: a departing thread orphans its context list exactly once");
    g_orph = true;
    OBLIGATION(FREED_IFF && !g_owns && (g_freed || L->m_mutex == 0), "C04.registry: an empty context list is freed by its departing thread, a list that still holds contexts is left to the last remove(); the mutex is released");
    OBLIGATION(g_td_freed == 1 && g_pool == 1 && D.my_threads_list_mutex == 0, "C04.registry: the thread data is released once; the thread list mutex is released");
}
void h_thread_exit_external(void) {            /* governor::auto_terminate for an external thread: it occupies an arena slot (init_external_thread) and is registered */
    mk_list(false); mk_threads(true); T.my_context_list = L; T.my_arena_slot = &AR; T.my_arena = &AR;
    governor_auto_terminate(&T);
    thread_exit_post();
    OBLIGATION(g_leave == 1, "C04.registry: an external thread leaves its task dispatcher before it is unregistered");
    VACUITY_END();
}
void h_thread_exit_worker(void) {              /* thread_dispatcher::cleanup for a worker: registered (create_one_job), outside any arena (arena::process cleared the slot) */
    mk_list(false); mk_threads(true); T.my_context_list = L; T.my_arena_slot = NULL; T.my_arena = NULL;
    thread_dispatcher_cleanup(&TDP, &T);
    thread_exit_post();
    VACUITY_END();
}
/* Reachability: a bound context must be cancelled with its ancestors for as long as it lives, so the list it is registered in must stay within reach of the propagator
   (= belong to a thread that is in the disseminator's thread list) until the context is destroyed.  Domain split: the departing thread's list holds no context / still holds
   THE watched (live, bound) context K. */
static void reach_pre(void) {
    mk_list(false);
#ifdef CONTEXTS_LEFT
    __CPROVER_assume(g_in);                     /* K was bound by this thread and outlives it (the orphaned-list protocol exists for exactly this case) */
#else
    __CPROVER_assume(n0 == 0);
#endif
    mk_threads(true); T.my_context_list = L;
}
#define REACH_POST OBLIGATION(!g_in || g_tin, "C04.registry: a bound context stays within reach of every later propagation until it is destroyed - the context list it is registered in belongs to a thread that is in the disseminator's thread list (a context that outlives the thread that bound it is still cancelled with its ancestors)")
void h_reach_external(void) { reach_pre(); T.my_arena_slot = &AR; T.my_arena = &AR; governor_auto_terminate(&T); REACH_POST; VACUITY_END(); }
void h_reach_worker(void) { reach_pre(); T.my_arena_slot = NULL; T.my_arena = NULL; thread_dispatcher_cleanup(&TDP, &T); REACH_POST; VACUITY_END(); }
#endif
#endif
