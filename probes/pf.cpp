#include <oneapi/tbb/parallel_for.h>
#include <atomic>
#include <cstdio>
int main(){
  std::atomic<long> n{0};
  int first=-2000000000, last=2000000000, step=1000000;
  long expect=0; for(long i=first;i<last;i+=step) ++expect;
  tbb::parallel_for(first,last,step,[&](int){ ++n; });
  std::printf("expected %ld calls, got %ld\n",expect,n.load());
}
