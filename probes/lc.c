#include <stddef.h>
#include <stdbool.h>
#include <stdlib.h>
typedef struct { void* o; unsigned long tok; bool rdy; bool valid; } ti;
size_t GH;
ti* mk(size_t n)
__CPROVER_requires(n>=1 && n<=4096)
__CPROVER_ensures(__CPROVER_is_fresh(__CPROVER_return_value, n*sizeof(ti)))
__CPROVER_ensures(GH<n ==> !__CPROVER_return_value[GH].valid)
__CPROVER_assigns()
{
  ti* a = (ti*)malloc(n*sizeof(ti)); __CPROVER_assume(a!=NULL);
  for(size_t i=0;i<n;++i)
    __CPROVER_assigns(i, __CPROVER_object_whole(a))
    __CPROVER_loop_invariant(i<=n)
    __CPROVER_loop_invariant((GH<i) ==> !a[GH].valid)
    __CPROVER_decreases(n-i)
  { a[i].valid=false; }
  return a;
}
void h(void){ size_t n; mk(n); }
