import re,sys,json
SRC=open('/repo/include/oneapi/tbb/spin_rw_mutex.h').read()
def strip_comments(s):
    return re.sub(r'//[^\n]*|/\*.*?\*/', lambda m: ' '*0 if m.group(0).startswith('//') else '', s, flags=re.S)
def brace_end(s,i):
    d=0
    for j in range(i,len(s)):
        if s[j]=='{': d+=1
        elif s[j]=='}':
            d-=1
            if d==0: return j
    raise SystemExit('unbalanced')
def slice_method(cls_txt,name,sig):
    m=re.search(sig,cls_txt); assert m,(name,sig)
    i=cls_txt.index('{',m.end()-1); j=brace_end(cls_txt,i)
    return cls_txt[m.start():j+1]
m=re.search(r'class spin_rw_mutex \{',SRC); cls=SRC[m.start():brace_end(SRC,SRC.index('{',m.start()))+1]
cls=strip_comments(cls)
fields=re.findall(r'std::atomic<\w+>\s+(\w+);',cls)        # harvested atomic fields
print('atomic fields:',fields)
methods={'lock':r'void lock\(\) ', 'try_lock':r'bool try_lock\(\) ','unlock':r'void unlock\(\) ','lock_shared':r'void lock_shared\(\) ',
 'try_lock_shared':r'bool try_lock_shared\(\) ','unlock_shared':r'void unlock_shared\(\) ','upgrade':r'bool upgrade\(\) ','downgrade':r'void downgrade\(\) '}
fired={}
def sub(pat,rep,txt,name,minc=0):
    txt,n=re.subn(pat,rep,txt); fired[name]=fired.get(name,0)+n; return txt
out=[]
for name,sig in methods.items():
    t=slice_method(cls,name,sig)
    t=sub(r'^(void|bool) (\w+)\(\)', r'\1 spin_rw_mutex_\2(void)\nCONTRACT_\2', t,'sig')
    t=sub(r'call_itt_notify\([^;]*\);','',t,'itt')
    t=sub(r'__TBB_ASSERT\((.*),\s*"([^"]*)"\);', r'RG_ASSERT(\1, "\2");',t,'assert')
    for f in fields:
        t=sub(rf'\b{f}\.load\([^)]*\)', rf'ATOMIC_LOAD({f})',t,'load')
        t=sub(rf'\b{f}\.compare_exchange_strong\((\w+),\s*([^;]*?)\)\)', rf'ATOMIC_CAS({f},&\1,\2))',t,'cas')
        t=sub(rf'\b{f}\.fetch_add\(([^)]*)\)', rf'ATOMIC_FETCH_ADD({f},\1)',t,'fetch_add')
        t=sub(rf'\b{f} \|= ([^;]*);', rf'ATOMIC_FETCH_OR({f},\1);',t,'or=')
        t=sub(rf'\b{f} &= ([^;]*);', rf'ATOMIC_FETCH_AND({f},\1);',t,'and=')
        t=sub(rf'\b{f} -= ([^;]*);', rf'ATOMIC_FETCH_ADD({f},-(\1));',t,'-=')
        t=sub(rf'\b{f} \+= ([^;]*);', rf'ATOMIC_FETCH_ADD({f},\1);',t,'+=')
        t=sub(rf'(?<![\w(])\b{f}\b(?= &)', rf'ATOMIC_LOAD({f})',t,'implicit-load')
    t=sub(r'for \(atomic_backoff (\w+); ; \1\.pause\(\)\)', r'for (;;) LOOP_\g<0>',t,'backoff-for')
    t=re.sub(r'LOOP_for \(atomic_backoff (\w+); ; \1\.pause\(\)\)', f'LOOP_{name}_1',t)
    t=sub(r'atomic_backoff \w+;','RG_NOP();',t,'backoff-decl')
    t=sub(r'\b\w+\.(pause|reset)\(\);','RG_NOP();',t,'backoff-call')
    t=sub(r'while \((.*)\) ;', r'while (\1) LOOP_'+name+'_w { }',t,'empty-while')
    t=sub(r'(?<![\w.>])(unlock_shared|lock)\(\);', r'spin_rw_mutex_\1();',t,'self-call')
    t=sub(r'(?<![\w,(])\(m_state &', '(PLAIN_READ(m_state) &', t,'plain-read')
    t=sub(r'RG_ASSERT\(m_state &', 'RG_ASSERT(PLAIN_READ(m_state) &', t,'plain-read')
    cnt=[0]
    def site(m):
        cnt[0]+=1; return f'{m.group(1)}_AT({name}_{cnt[0]}, '
    t=re.sub(r'\b(ATOMIC_(?:LOAD|CAS|FETCH_ADD|FETCH_OR|FETCH_AND))\(', site, t)
    t=t.replace('while ((ATOMIC_LOAD_AT(upgrade_3, m_state) & READERS) != ONE_READER) RG_NOP();','while ((ATOMIC_LOAD_AT(upgrade_3, m_state) & READERS) != ONE_READER) LOOP_upgrade_2 { RG_NOP(); }')
    t=t.replace("while ((s & READERS) == ONE_READER || !(s & WRITER_PENDING)) {","while ((s & READERS) == ONE_READER || !(s & WRITER_PENDING)) LOOP_upgrade_1 {")
    out.append(t)
open('srw_extracted.inc','w').write('\n'.join(out))
print(json.dumps(fired))
