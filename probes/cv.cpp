#include <oneapi/tbb/concurrent_vector.h>
#include <cstdio>
#include <new>
static int fail_at=-1, calls=0;
template<class T> struct A {
  using value_type=T;
  A()=default; template<class U> A(const A<U>&){}
  T* allocate(std::size_t n){ ++calls; std::printf("alloc #%d n=%zu sizeof=%zu\n",calls,n,sizeof(T)); if(calls==fail_at) throw std::bad_alloc(); return (T*)::operator new(n*sizeof(T)); }
  void deallocate(T*p,std::size_t){ ::operator delete(p);}
  template<class U> bool operator==(const A<U>&)const{return true;}
  template<class U> bool operator!=(const A<U>&)const{return false;}
};
int main(){
  tbb::concurrent_vector<long,A<long>> v;
  v.grow_by(8);
  fail_at=calls+1;
  try{ v.push_back(7);}catch(std::bad_alloc&){std::puts("push_back threw bad_alloc");}
  std::printf("size=%zu\n",v.size());
  try{ long x=v.at(8); std::printf("at(8)=%ld\n",x);}catch(std::exception&e){std::printf("at threw %s\n",e.what());}
}
