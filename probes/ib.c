#include <stddef.h>
#include <stdbool.h>
#include <stdlib.h>
typedef unsigned long Token; typedef Token size_type;
typedef struct task_info { void* my_object; Token my_token; bool my_token_ready; bool is_valid; } task_info;
struct input_buffer { task_info* array; size_type array_size; Token low_token; Token high_token; bool is_ordered; };
static const size_type initial_buffer_size = 4;
#define MAXSZ (1UL<<16)
size_t GH_t; /* ghost: an arbitrary token */
#define POW2(x) ((x)!=0 && (((x)&((x)-1))==0))
#define CONTRACT_grow \
 __CPROVER_requires(__CPROVER_is_fresh(self,sizeof(*self))) \
 __CPROVER_requires(self->array_size<=MAXSZ && (POW2(self->array_size) && self->array_size>=4)) \
 __CPROVER_requires(__CPROVER_is_fresh(self->array,self->array_size*sizeof(task_info))) \
 __CPROVER_requires(minimum_size<=2*MAXSZ) \
 __CPROVER_assigns(self->array,self->array_size, __CPROVER_object_whole(self->array)) \
 __CPROVER_frees(self->array) \
 __CPROVER_ensures(POW2(self->array_size) && self->array_size>=minimum_size && self->array_size>=4 && self->array_size>=2*__CPROVER_old(self->array_size)) \
 __CPROVER_ensures(self->low_token==__CPROVER_old(self->low_token)) \
 __CPROVER_ensures( (GH_t-self->low_token < __CPROVER_old(self->array_size)) ? \
      (self->array[GH_t&(self->array_size-1)].is_valid==__CPROVER_old(self->array[GH_t&(self->array_size-1)].is_valid)) : (GH_t-self->low_token<self->array_size ==> !self->array[GH_t&(self->array_size-1)].is_valid) )
#define LOOP_grow_1 __CPROVER_assigns(new_size) __CPROVER_loop_invariant(POW2(new_size) && new_size>=4 && new_size<=4*MAXSZ && new_size>=2*old_size) __CPROVER_decreases(8*MAXSZ-new_size)
#define LOOP_grow_2 __CPROVER_assigns(i,__CPROVER_object_whole(new_array)) __CPROVER_loop_invariant(i<=new_size) __CPROVER_loop_invariant((GH_t&(new_size-1))<i ==> !new_array[GH_t&(new_size-1)].is_valid) __CPROVER_decreases(new_size-i)
#define LOOP_grow_3 __CPROVER_assigns(i,t,__CPROVER_object_whole(new_array)) __CPROVER_loop_invariant(i<=old_size && t==self->low_token+i && POW2(old_size) && POW2(new_size) && new_size>=2*old_size) \
   __CPROVER_loop_invariant( (GH_t-self->low_token<i) ? (new_array[GH_t&(new_size-1)].is_valid==old_array[GH_t&(old_size-1)].is_valid) : (GH_t-self->low_token<new_size ==> !new_array[GH_t&(new_size-1)].is_valid) ) __CPROVER_decreases(old_size-i)
#define CONTRACT_put
static void* alloc_nofail(size_t n){ void* p=malloc(n); __CPROVER_assume(p!=NULL); return p; }
#include "ib_extracted.inc"
void h_grow(void){ struct input_buffer* s; size_type m; input_buffer_grow(s,m); }
