import re,sys
def load(p): return open(p).read()
def slice_braced(src, start_re, flags=0):
    m=re.search(start_re,src,flags); assert m, start_re
    i=src.index('{',m.end()-1); d=0; j=i
    while True:
        c=src[j]
        if c=='{': d+=1
        elif c=='}':
            d-=1
            if d==0: break
        j+=1
    return src[m.start():j+1]
def apply(txt,rs):
    for pat,rep,minc in rs:
        txt,n=re.subn(pat,rep,txt,flags=re.M)
        assert n>=minc,(pat,n)
    return txt
P=load('/repo/include/oneapi/tbb/partitioner.h')
cls=slice_braced(P, r'class range_vector \{')
fn=slice_braced(cls, r'void split_to_fill\(depth_t max_depth\) ')
out=apply(fn,[
 (r'void split_to_fill\(depth_t max_depth\)', 'void range_vector_split_to_fill(struct range_vector* self, depth_t max_depth)',1),
 (r'\b(my_size|my_head|my_tail|my_depth)\b', r'self->\1',4),
 (r'my_pool\.begin\(\)', 'self->my_pool',4),
 (r'(?<![\w>.])is_divisible\(max_depth\)', 'range_vector_is_divisible(self, max_depth)',1),
 (r'new\(self->my_pool\+self->my_head\) T\(self->my_pool\[prev\]\);[^\n]*', 'self->my_pool[self->my_head] = self->my_pool[prev];',1),
 (r'self->my_pool\[prev\]\.~T\(\);[^\n]*', '/* ~T(): trivial for POD range */',1),
 (r'new\(self->my_pool\+prev\) T\(self->my_pool\[self->my_head\], detail::split\(\)\);[^\n]*', 'T_split_ctor(&self->my_pool[prev], &self->my_pool[self->my_head]);',1),
 (r'while\( self->my_size < MaxCapacity', 'while( self->my_size < MaxCapacity',1),
])
print(out)
B=load('/repo/include/oneapi/tbb/blocked_range.h')
ds=slice_braced(B, r'static Value do_split\( blocked_range& r, split \)')
print(apply(ds,[
 (r'static Value do_split\( blocked_range& r, split \)','static Value blocked_range_do_split(blocked_range* r)',1),
 (r'\br\.','r->',3),
 (r'__TBB_ASSERT\(\s*(.*),\s*"([^"]*)"\s*\);', r'__CPROVER_assert(\1, "TBB_ASSERT: \2");',1),
 (r'r->is_divisible\(\)','blocked_range_is_divisible(r)',1),
]))
