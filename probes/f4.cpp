#include <oneapi/tbb/blocked_range2d.h>
#include <cstdio>
int main(){
  using R=tbb::blocked_range2d<std::size_t,std::size_t>;
  std::size_t big=(1ull<<60);
  R r(0,5,5, 0,big+1,big);           // rows: size 5 grain 5 -> NOT divisible; cols: size 2^60+1 grain 2^60 -> divisible
  std::printf("rows divisible=%d cols divisible=%d range divisible=%d\n",r.rows().is_divisible(),r.cols().is_divisible(),r.is_divisible());
  R r2(r,tbb::split());
  std::printf("after split: r.rows=[%zu,%zu) r.cols=[%zu,%zu) | r2.rows=[%zu,%zu) r2.cols=[%zu,%zu)\n",
    r.rows().begin(),r.rows().end(),r.cols().begin(),r.cols().end(),r2.rows().begin(),r2.rows().end(),r2.cols().begin(),r2.cols().end());
}
