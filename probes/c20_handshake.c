/* C20 hand-shake and C01 proxy claim: RG feasibility (bodies hand-copied for this probe) */
#include <stdint.h>
#include <stdbool.h>
/* ---------- C20: suspend_point_type::m_stack_state ---------- */
enum { A_active, S_suspended, N_notified };
int st;                 /* m_stack_state of one suspend point, one suspension epoch */
/* ghost phases of the two actors of this epoch and the pushes of its resume task */
bool g_left;            /* suspender executed its exchange(S) in finilize_resume */
bool g_resumed;         /* user's resume() executed its exchange(N) */
unsigned g_pushes; bool g_owed; /* leaver saw N and will re-notify itself */
bool me_is_suspender, me_is_resumer;
#define INV20 ( g_pushes<=1 \
  && (!g_left && !g_resumed ==> (st==A_active && g_pushes==0)) \
  && ( g_left && !g_resumed ==> (st==S_suspended && g_pushes==0)) \
  && (!g_left &&  g_resumed ==> (st==N_notified && g_pushes==0)) \
  && ( g_left &&  g_resumed ==> ((st==N_notified && g_pushes==1 && !g_owed) || (st==S_suspended && g_pushes==0 && g_owed))) \
  && (g_owed ==> (g_left && g_resumed)) )
static void interfere20(void){ int s; bool l,r; unsigned p; bool ol=g_left, orr=g_resumed; unsigned op=g_pushes;
  bool ow; bool oo=g_owed; st=s; g_left=l; g_resumed=r; g_pushes=p; g_owed=ow;
  __CPROVER_assume(INV20);
  /* rely: the other actor only moves forward; my own phase is mine */
  __CPROVER_assume(g_pushes>=op);
  if(me_is_suspender) __CPROVER_assume(g_left==ol && g_owed==oo && (orr ==> g_resumed));
  else __CPROVER_assume(oo ==> 1);
  if(me_is_resumer)   __CPROVER_assume(g_resumed==orr && (ol ==> g_left));
}
static int xchg20(int v){ interfere20(); int o=st; st=v; return o; }
static void push_resume_task(void){ g_pushes++; }
/* try_notify_resume + the decision in r1::resume */
void r1_resume(void){
  if (xchg20(N_notified) == S_suspended) { /*ghost*/ push_resume_task(); }
}
/* finilize_resume on the stack we switched to; prev = the point we left */
void finilize_resume_prev(void){
  int old = xchg20(S_suspended); g_left=true; if(old==N_notified) g_owed=true;
  __CPROVER_assert(INV20,"guarantee after leaver's first exchange");
  if (old == N_notified) { /* r1::resume(prev) */ 
     /* second exchange by the same thread, no third party may touch the word now except forward moves */
     interfere20(); int o2 = st; st = N_notified; if (o2==S_suspended) push_resume_task(); g_owed=false;
  }
  __CPROVER_assert(INV20,"guarantee after leaver");
}
void h_resumer(void){ __CPROVER_assume(INV20 && !g_resumed); me_is_resumer=true; me_is_suspender=false;
  interfere20(); int o=st; st=N_notified; g_resumed=true; if(o==S_suspended) push_resume_task();   /* r1_resume body, atomic step + ghost */
  __CPROVER_assert(INV20,"guarantee after resumer");
  interfere20(); __CPROVER_assert(g_left ==> g_pushes==1, "once both sides are done exactly one push happened"); }
void h_leaver(void){ __CPROVER_assume(INV20 && !g_left); me_is_suspender=true; me_is_resumer=false;
  finilize_resume_prev();
  interfere20(); __CPROVER_assert(g_resumed ==> g_pushes==1, "once both sides are done exactly one push happened"); }
