#include <stdint.h>
#include <stdbool.h>
typedef intptr_t state_type;
#define WRITER ((state_type)1)
#define WRITER_PENDING ((state_type)2)
#define READERS (~(WRITER | WRITER_PENDING))
#define ONE_READER ((state_type)4)
#define BUSY (WRITER | READERS)
state_type m_state;
unsigned long gW,gU,gR,gT; bool meW,meU,meR,meT;
#define BOUND (gR<(1UL<<40) && gT<(1UL<<40))
#define INV ( gW<=1 && gU<=1 && gW+gU<=1 && ((m_state&WRITER)!=0)==(gW+gU==1) && m_state>=0 && (unsigned long)(m_state>>2)==gR+gT \
  && (gW==1 ? gR==0 : 1) && (gU==1 ? ((m_state&WRITER_PENDING)!=0) : 1) \
  && gW>=meW && gU>=meU && gT>=meT && gR >= (unsigned long)meR + (gU-(unsigned long)meU) )
/* two-state rely/guarantee: while some upgrader owns the WRITER bit, no new read holder appears */
#define TWO_STATE(oU,oR) ((oU)==1 && gU==1 ? gR<=(oR) : 1)
static void interfere(void){ unsigned long oU=gU,oR=gR; state_type s; unsigned long w,u,r,t; m_state=s;gW=w;gU=u;gR=r;gT=t;
  __CPROVER_assume(INV && BOUND && (meU ? TWO_STATE(oU,oR) : 1)); }
#define RG_SITE(site,T,op) ({ interfere(); unsigned long oU_=gU,oR_=gR; T old_=m_state; T r_=(op); GHOST_##site; \
   __CPROVER_assert(INV,"guarantee INV at " #site); __CPROVER_assert(TWO_STATE(oU_,oR_),"guarantee two-state at " #site); r_; })
#define ATOMIC_LOAD_AT(site,f) RG_SITE(site,state_type,(f))
#define ATOMIC_CAS_AT(site,f,e,d) RG_SITE(site,bool,((f)==*(e) ? ((f)=(d),true) : (*(e)=(f),false)))
#define ATOMIC_FETCH_ADD_AT(site,f,d) RG_SITE(site,state_type,((f)=old_+(d),old_))
#define ATOMIC_FETCH_OR_AT(site,f,d) RG_SITE(site,state_type,((f)=old_|(d),old_))
#define ATOMIC_FETCH_AND_AT(site,f,d) RG_SITE(site,state_type,((f)=old_&(d),old_))
#define PLAIN_READ(f) (f)
#define RG_NOP() ((void)0)
#define RG_ASSERT(c,m) __CPROVER_assert(c,"TBB_ASSERT: " m)
/* ---- ghost hooks per atomic site (spec) ---- */
#define NOG ((void)0)
#define GHOST_lock_1 NOG
#define GHOST_lock_2 if(r_){gW++;meW=true;}
#define GHOST_lock_3 NOG
#define GHOST_try_lock_1 NOG
#define GHOST_try_lock_2 if(r_){gW++;meW=true;}
#define GHOST_unlock_1 {gW--;meW=false;}
#define GHOST_lock_shared_1 NOG
#define GHOST_lock_shared_2 if(!(r_&WRITER)){gR++;meR=true;}else{gT++;meT=true;}
#define GHOST_lock_shared_3 {gT--;meT=false;}
#define GHOST_try_lock_shared_1 NOG
#define GHOST_try_lock_shared_2 if(!(r_&WRITER)){gR++;meR=true;}else{gT++;meT=true;}
#define GHOST_try_lock_shared_3 {gT--;meT=false;}
#define GHOST_unlock_shared_1 {gR--;meR=false;}
#define GHOST_upgrade_1 NOG
#define GHOST_upgrade_2 if(r_){gU++;meU=true;}
#define GHOST_upgrade_3 NOG
#define GHOST_upgrade_4 {gU--;gR--;gW++;meU=false;meR=false;meW=true;}
#define GHOST_downgrade_1 {gW--;gR++;meW=false;meR=true;}
#define IDLE (!meW&&!meU&&!meR&&!meT)
#define LOOPI(cond) __CPROVER_assigns(m_state,gW,gU,gR,gT,meW,meU,meR,meT) __CPROVER_loop_invariant(INV && BOUND && (cond))
#define LOOP_lock_1 LOOPI(IDLE)
#define LOOP_lock_shared_1 LOOPI(IDLE)
#define LOOP_upgrade_1 __CPROVER_assigns(m_state,gW,gU,gR,gT,meW,meU,meR,meT,s) __CPROVER_loop_invariant(INV && BOUND && !meW&&!meU&&meR&&!meT)
#define LOOP_upgrade_2 LOOPI(!meW&&meU&&meR&&!meT)
#define CONTRACT_lock
#define CONTRACT_try_lock
#define CONTRACT_unlock
#define CONTRACT_lock_shared
#define CONTRACT_try_lock_shared
#define CONTRACT_unlock_shared
#define CONTRACT_upgrade
#define CONTRACT_downgrade
void spin_rw_mutex_lock(void); void spin_rw_mutex_unlock_shared(void);
#include "srw_extracted.inc"
#define PRE(c) __CPROVER_assume(INV && BOUND && (c))
void h_lock(void){ PRE(IDLE); spin_rw_mutex_lock(); interfere(); __CPROVER_assert(meW&&gW==1&&gR==0&&gU==0,"post: exclusive writer"); }
void h_try_lock(void){ PRE(IDLE); bool ok=spin_rw_mutex_try_lock(); interfere(); __CPROVER_assert(ok? (meW&&gW==1&&gR==0&&gU==0) : IDLE,"post: truthful try_lock"); }
void h_unlock(void){ PRE(meW&&!meU&&!meR&&!meT); spin_rw_mutex_unlock(); __CPROVER_assert(IDLE,"post: released"); }
void h_lock_shared(void){ PRE(IDLE); spin_rw_mutex_lock_shared(); interfere(); __CPROVER_assert(meR&&gW==0&&!meT,"post: reader, no writer"); }
void h_try_lock_shared(void){ PRE(IDLE); bool ok=spin_rw_mutex_try_lock_shared(); interfere(); __CPROVER_assert(ok? (meR&&gW==0&&!meT) : IDLE,"post: truthful try_lock_shared"); }
void h_unlock_shared(void){ PRE(!meW&&!meU&&meR&&!meT); spin_rw_mutex_unlock_shared(); __CPROVER_assert(IDLE,"post: released"); }
void h_upgrade(void){ PRE(!meW&&!meU&&meR&&!meT); bool ok=spin_rw_mutex_upgrade(); interfere(); __CPROVER_assert(meW&&!meR&&!meU&&gW==1&&gR==0,"post: writer after upgrade"); }
void h_downgrade(void){ PRE(meW&&!meU&&!meR&&!meT); spin_rw_mutex_downgrade(); interfere(); __CPROVER_assert(meR&&!meW&&gW==0,"post: reader after downgrade, no writer slipped in"); }
