#include <stdint.h>
#include <stdbool.h>
typedef intptr_t state_type;
#define WRITER ((state_type)1)
#define WRITER_PENDING ((state_type)2)
#define READERS (~(WRITER|WRITER_PENDING))
#define ONE_READER ((state_type)4)
#define BUSY (WRITER|READERS)
/* shared word + ghost census of ALL threads (unbounded) */
state_type m_state; 
unsigned long gW;   /* threads holding write lock */
unsigned long gU;   /* readers that own the WRITER bit while upgrading */
unsigned long gR;   /* threads holding read lock (incl. upgraders) */
unsigned long gT;   /* transient reader increments by non-holders */
/* my own contribution */
bool meW, meU, meR, meT;
#define INV ( gW<=1 && gU<=1 && gW+gU<=1 && ((m_state&WRITER)!=0) == (gW+gU==1) && (m_state>>2)>=0 && (unsigned long)(m_state>>2)==gR+gT \
   && (gW==1 ? gR==0 : 1) && (gU==1 ? gR>=1 : 1) \
   && gW>=meW && gU>=meU && gR>=meR && gT>=meT )
static void interfere(void){ /* any number of steps by other threads: they preserve INV and my contributions */
  state_type s; unsigned long w,u,r,t; m_state=s; gW=w; gU=u; gR=r; gT=t; __CPROVER_assume(gR<(1UL<<40) && gT<(1UL<<40) && INV && gR<(1UL<<40) && gT<(1UL<<40));
}
#define STEP_CHECK __CPROVER_assert(INV,"guarantee: step preserves invariant")
static state_type A_load(void){ interfere(); return m_state; }
static bool A_cas(state_type* exp, state_type des){ interfere(); if(m_state==*exp){ m_state=des; return true;} *exp=m_state; return false; }
static state_type A_fetch_add(state_type d){ interfere(); state_type o=m_state; m_state=o+d; return o; }
static state_type A_fetch_and(state_type d){ interfere(); state_type o=m_state; m_state=o&d; return o; }

/* ---- bodies as in spin_rw_mutex.h (hand-copied for the probe; extraction is the real route) ---- */
bool try_lock(void){
  state_type s = A_load();
  if (!(s & BUSY)) {
    if (A_cas(&s, WRITER)) { /*ghost*/ gW++; meW=true; STEP_CHECK; return true; }
  }
  return false;
}
void unlock(void){ /* requires meW */ A_fetch_and(READERS); /*ghost*/ gW--; meW=false; STEP_CHECK; }
bool try_lock_shared(void){
  state_type s = A_load();
  if (!(s & (WRITER|WRITER_PENDING))) {
    state_type prev = A_fetch_add(ONE_READER);
    if (!(prev & WRITER)) { gR++; meR=true; STEP_CHECK; return true; }
    gT++; meT=true; STEP_CHECK;
    A_fetch_add(-ONE_READER); gT--; meT=false; STEP_CHECK;
  }
  return false;
}
void unlock_shared(void){ A_fetch_add(-ONE_READER); gR--; meR=false; STEP_CHECK; }
void h_try_lock(void){ __CPROVER_assume(gR<(1UL<<40) && gT<(1UL<<40) && INV && !meW&&!meU&&!meR&&!meT); bool ok=try_lock(); interfere();
   if(ok){ __CPROVER_assert(gW==1 && gR==0 && gU==0 && (m_state&WRITER),"writer excl"); } }
void h_unlock(void){ __CPROVER_assume(gR<(1UL<<40) && gT<(1UL<<40) && INV && meW&&!meU&&!meR&&!meT); unlock(); __CPROVER_assert(!meW,"released"); }
void h_try_lock_shared(void){ __CPROVER_assume(gR<(1UL<<40) && gT<(1UL<<40) && INV && !meW&&!meU&&!meR&&!meT); bool ok=try_lock_shared(); interfere();
   if(ok){ __CPROVER_assert(gW==0 && gR>=1,"no writer while I read"); } else __CPROVER_assert(!meR&&!meT,"clean failure"); }
void h_unlock_shared(void){ __CPROVER_assume(gR<(1UL<<40) && gT<(1UL<<40) && INV && !meW&&!meU&&meR&&!meT); unlock_shared(); }
/* blocking writer lock and upgrade, bodies as in spin_rw_mutex.h; backoff dropped */
void lock_(void){
  for(;;)
  __CPROVER_assigns(m_state,gW,gU,gR,gT,meW)
  __CPROVER_loop_invariant(INV && !meW && !meU && !meR && !meT && gR<(1UL<<40) && gT<(1UL<<40))
  {
    state_type s = A_load();
    if (!(s & BUSY)) {
      if (A_cas(&s, WRITER)) { gW++; meW=true; STEP_CHECK; break; }
    } else if (!(s & WRITER_PENDING)) {
      interfere(); m_state |= WRITER_PENDING; STEP_CHECK;
    }
  }
}
bool upgrade(void){
  state_type s = A_load();
  while ((s & READERS) == ONE_READER || !(s & WRITER_PENDING))
  __CPROVER_assigns(m_state,gW,gU,gR,gT,meU,meW,meR,s)
  __CPROVER_loop_invariant(INV && !meW && !meU && meR && !meT && gR<(1UL<<40) && gT<(1UL<<40))
  {
    if (A_cas(&s, s | WRITER | WRITER_PENDING)) {
      gU++; meU=true; STEP_CHECK;
      while ((A_load() & READERS) != ONE_READER)
        __CPROVER_assigns(m_state,gW,gU,gR,gT)
        __CPROVER_loop_invariant(INV && !meW && meU && meR && !meT && gR<(1UL<<40) && gT<(1UL<<40))
      { }
      /* linearization: last A_load saw exactly one reader (me) -> become writer */
      m_state -= (ONE_READER + WRITER_PENDING); gU--; gR--; gW++; meU=false; meR=false; meW=true; STEP_CHECK;
      return true;
    }
  }
  unlock_shared();
  lock_();
  return false;
}
void h_lock(void){ __CPROVER_assume(gR<(1UL<<40) && gT<(1UL<<40) && INV && !meW&&!meU&&!meR&&!meT); lock_(); interfere(); __CPROVER_assert(gW==1&&gR==0&&gU==0,"excl after lock"); }
void h_upgrade(void){ __CPROVER_assume(gR<(1UL<<40) && gT<(1UL<<40) && INV && !meW&&!meU&&meR&&!meT); bool ok=upgrade(); interfere(); __CPROVER_assert(meW && gW==1&&gR==0,"writer after upgrade"); }
