// white-box native harness: the real input_buffer from the real translation unit
#include "/repo/src/tbb/parallel_pipeline.cpp"
#include <cstdio>
namespace tbb{namespace detail{namespace r1{ void handle_perror(int,const char*){ std::abort(); } }}}
using namespace tbb::detail::r1;
int main(){
  input_buffer b(/*ordered*/true);
  std::printf("array_size=%lu low=%lu\n",(unsigned long)b.array_size,(unsigned long)b.low_token);
  b.low_token=5; b.high_token=5;
  for(unsigned long t: {7ul,6ul,12ul}){ task_info ti; ti.my_object=(void*)t; ti.my_token=t; ti.my_token_ready=true; bool parked=b.try_put_token(ti); std::printf("put %lu parked=%d size=%lu\n",t,(int)parked,(unsigned long)b.array_size); }
  for(unsigned long t=5;t<13;++t){ auto& s=b.array[t&(b.array_size-1)]; if(s.is_valid) std::printf("slot of %lu holds token %lu\n",t,(unsigned long)s.my_token); }
}
