#include <stdint.h>
#include <stddef.h>
#include <stdbool.h>
typedef struct { char pad[128]; } Block; /* sizeof(Block)=2*estimatedCacheLineSize on x86-64: checked natively by the replay harness */
#define estimatedCacheLineSize 64
#define slabSize ((uintptr_t)(16*1024))
static const uint32_t minSmallObjectIndex = 0; static const uint32_t numSmallObjectBins = 8; static const uint32_t maxSmallObjectSize = 64;
static const uint32_t minSegregatedObjectIndex = 8; static const uint32_t numSegregatedObjectBins = 16; static const uint32_t maxSegregatedObjectSize = 1024;
static const uint32_t minFittingIndex = 24; static const uint32_t numFittingBins = 5; enum { fittingAlignment = estimatedCacheLineSize };
#define SET_FITTING_SIZE(N) ( (slabSize-sizeof(Block))/N ) & ~(fittingAlignment-1)
enum { fittingSize1 = SET_FITTING_SIZE(9), fittingSize2 = SET_FITTING_SIZE(6), fittingSize3 = SET_FITTING_SIZE(4), fittingSize4 = SET_FITTING_SIZE(3), fittingSize5 = SET_FITTING_SIZE(2) };
#define MALLOC_ASSERT(c,t) __CPROVER_assert(c,"MALLOC_ASSERT " #c)
static inline size_t alignUp(size_t a, size_t al){ return (a+(al-1)) & ~(al-1); }
unsigned int highestBitPos(unsigned int n)
 __CPROVER_requires(n>=64 && n<1024) __CPROVER_ensures(__CPROVER_return_value<=9 && (1u<<__CPROVER_return_value)<=n && n<(2u<<__CPROVER_return_value)) __CPROVER_assigns();
unsigned int getSmallObjectIndex(unsigned int size)
{
    unsigned int result = (size-1)>>3;
    const bool is_64bit = (8 == sizeof(void*));
    if (is_64bit) {
        if (result) result |= 1;
    }
    return result;
}
#define GEN(NAME,indexRequest) \
static unsigned int NAME (unsigned int size) { \
    if (size <= maxSmallObjectSize) { unsigned int index = getSmallObjectIndex( size ); return indexRequest ? index : (index+1)<<3; } \
    else if (size <= maxSegregatedObjectSize ) { unsigned int order = highestBitPos(size-1); MALLOC_ASSERT( 6<=order && order<=9, ASSERT_TEXT ); \
        if (indexRequest) return minSegregatedObjectIndex - (4*6) - 4 + (4*order) + ((size-1)>>(order-2)); \
        else { unsigned int alignment = 128 >> (9-order); MALLOC_ASSERT( alignment==16 || alignment==32 || alignment==64 || alignment==128, ASSERT_TEXT ); return alignUp(size,alignment); } } \
    else { if( size <= fittingSize3 ) { if( size <= fittingSize2 ) { if( size <= fittingSize1 ) return indexRequest ? minFittingIndex : fittingSize1; else return indexRequest ? minFittingIndex+1 : fittingSize2; } else return indexRequest ? minFittingIndex+2 : fittingSize3; } \
        else { if( size <= fittingSize5 ) { if( size <= fittingSize4 ) return indexRequest ? minFittingIndex+3 : fittingSize4; else return indexRequest ? minFittingIndex+4 : fittingSize5; } else { MALLOC_ASSERT( 0,ASSERT_TEXT ); return ~0U; } } } }
GEN(getIndex,1) GEN(getObjectSize,0)
void h_gi(void){
  unsigned s, s2; __CPROVER_assume(s>=1 && s<=fittingSize5 && s2>=1 && s2<=fittingSize5);
  unsigned o=getObjectSize(s), i=getIndex(s);
  __CPROVER_assert(o>=s, "object big enough");
  __CPROVER_assert(i<29, "bin index in range");
  __CPROVER_assert(s<=8 ? o==8 : o%16==0, "natural alignment 8/16");
  __CPROVER_assert(getIndex(o)==i && getObjectSize(o)==o, "bin is closed: size of bin maps to same bin");
  __CPROVER_assert((s<=s2) ==> (getIndex(s)<=getIndex(s2) && getObjectSize(s)<=getObjectSize(s2)), "monotone");
  __CPROVER_assert((getIndex(s)==getIndex(s2)) == (getObjectSize(s)==getObjectSize(s2)), "index and size agree");
  __CPROVER_assert(o <= slabSize-sizeof(Block) && (slabSize-sizeof(Block))/o>=2 || o==fittingSize5, "at least 2 objects per slab");
  /* aligned path (allocateAligned case 1) */
  unsigned sz, al; __CPROVER_assume(sz<=1024 && al<=1024 && al>=1 && (al&(al-1))==0);
  unsigned req = alignUp(sz?sz:sizeof(size_t), al);
  __CPROVER_assert(req<=1024 && getObjectSize(req)%al==0, "case 1: object size is a multiple of alignment");
}
