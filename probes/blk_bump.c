#include <stdint.h>
#include <stddef.h>
#include <stdbool.h>
#define slabSize ((uintptr_t)(16*1024))
typedef struct FreeObject { struct FreeObject* next; } FreeObject;
typedef struct Block { FreeObject* bumpPtr; FreeObject* freeList; void* tls; uint16_t allocatedCount; uint16_t objectSize; char hdr_pad[128-28]; char payload[16*1024-128]; } Block;
_Static_assert(sizeof(Block)==16*1024,"model of slab");
#define HDR 128
#define MALLOC_ASSERT(c,t) __CPROVER_assert(c,"MALLOC_ASSERT " #c)
/* as in frontend.cpp (this-> made explicit); variant A: original uintptr_t round trip */
FreeObject* Block_allocateFromBumpPtr_A(Block* self){
    FreeObject *result = self->bumpPtr;
    if (result) {
        self->bumpPtr = (FreeObject *) ((uintptr_t) self->bumpPtr - self->objectSize);
        if ( (uintptr_t)self->bumpPtr < (uintptr_t)self+HDR ) {
            self->bumpPtr = NULL;
        }
        MALLOC_ASSERT( self->allocatedCount < (slabSize-HDR)/self->objectSize, ASSERT_TEXT );
        self->allocatedCount++;
    }
    return result;
}
/* variant B: rule uintptr_t-round-trip -> char* arithmetic */
FreeObject* Block_allocateFromBumpPtr_B(Block* self){
    FreeObject *result = self->bumpPtr;
    if (result) {
        self->bumpPtr = (FreeObject *) ((char*) self->bumpPtr - self->objectSize);
        if ( (uintptr_t)self->bumpPtr < (uintptr_t)self+HDR ) {
            self->bumpPtr = NULL;
        }
        MALLOC_ASSERT( self->allocatedCount < (slabSize-HDR)/self->objectSize, ASSERT_TEXT );
        self->allocatedCount++;
    }
    return result;
}
#ifndef V
#define V B
#endif
#define CAT(a,b) a##b
#define F(v) CAT(Block_allocateFromBumpPtr_,v)
static Block blk;
void h(void){
  Block* b=&blk; uint16_t os; size_t k;   /* k objects already carved from the bump region */
  __CPROVER_assume(os>=8 && os<=8128 && os%8==0);
  size_t cap=(slabSize-HDR)/os;
  __CPROVER_assume(k<=cap);
  b->objectSize=os; b->allocatedCount=k;   /* ghost relation for this probe: only bump allocations so far */
  b->bumpPtr = (k==cap)? NULL : (FreeObject*)((char*)b + slabSize - (k+1)*os);
  FreeObject* r=F(V)(b);
  if(k==cap) __CPROVER_assert(r==NULL,"exhausted slab returns NULL");
  else {
    __CPROVER_assert((char*)r >= (char*)b+HDR && (char*)r+os <= (char*)b+slabSize, "object inside payload");
    __CPROVER_assert((((char*)b+slabSize)-(char*)r) % os == 0, "properly placed from slab end");
    __CPROVER_assert(b->bumpPtr==NULL || (char*)b->bumpPtr+os==(char*)r, "bump moved down by exactly one object");
    __CPROVER_assert((b->bumpPtr==NULL) == (k+1==cap), "bump exhausted exactly when full");
    r->next=NULL; /* the caller writes into the object: must be a valid in-bounds write */
  }
}
