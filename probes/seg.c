#include <stddef.h>
#include <stdint.h>
typedef size_t size_type; typedef size_t segment_index_type;
static inline uintptr_t machine_log2(uintptr_t x) { return (sizeof(x)*8 - 1) ^ (uintptr_t)__builtin_clzl(x); }
static segment_index_type segment_index_of( size_type index ) { return (size_type)(machine_log2((uintptr_t)(index|1))); }
static size_type segment_base( size_type index ) { return (size_type)(1) << index & ~(size_type)(1); }
static size_type segment_size( size_type index ) { return index == 0 ? 2 : (size_type)(1) << index; }
void h_bij(void){
  size_t i; 
  size_t k = segment_index_of(i);
  __CPROVER_assert(k < 64, "k<64");
  __CPROVER_assert(segment_base(k) <= i, "base<=i");
  __CPROVER_assert(i - segment_base(k) < segment_size(k), "offset<size");
  size_t j; __CPROVER_assume(j<64 && j!=k);
  __CPROVER_assert(!(segment_base(j) <= i && i - segment_base(j) < segment_size(j)), "unique segment");
  /* tiling: next segment starts where this ends */
  if(k<63) __CPROVER_assert(segment_base(k+1) == segment_base(k)+segment_size(k), "tile");
}
