#include <stddef.h>
#include <stdbool.h>
#include <stdlib.h>
typedef unsigned long Token; typedef Token size_type;
typedef struct task_info { void* my_object; Token my_token; bool my_token_ready; bool is_valid; } task_info;
struct input_buffer { task_info* array; size_type array_size; Token low_token; Token high_token; bool is_ordered; };
#define MAXSZ (1UL<<12)
#define POW2(x) ((x)!=0 && (((x)&((x)-1))==0))
Token GH_t;  /* ghost: arbitrary token */
/* representation invariant, instantiated at the ghost token's slot:
   a valid slot holds a token of the current window that hashes to it */
#define SLOT(b,t) ((b)->array[(t)&((b)->array_size-1)])
#define RI_SHAPE(b) (POW2((b)->array_size) && (b)->array_size>=4 && (b)->array_size<=MAXSZ)
#define RI_AT(b,t) ( SLOT(b,t).is_valid ==> ( SLOT(b,t).my_token-(b)->low_token>0 && SLOT(b,t).my_token-(b)->low_token<(b)->array_size \
                     && ((SLOT(b,t).my_token ^ (t)) & ((b)->array_size-1))==0 && SLOT(b,t).my_token_ready ) )
void input_buffer_grow(struct input_buffer* self, size_type minimum_size)
 __CPROVER_requires(__CPROVER_is_fresh(self,sizeof(*self)) && RI_SHAPE(self) && __CPROVER_is_fresh(self->array,self->array_size*sizeof(task_info)))
 __CPROVER_requires(minimum_size<=2*MAXSZ)
 __CPROVER_assigns(self->array,self->array_size) __CPROVER_frees(self->array)
 __CPROVER_ensures(POW2(self->array_size) && self->array_size>=minimum_size && self->array_size>=2*__CPROVER_old(self->array_size) && self->array_size<=4*MAXSZ)
 __CPROVER_ensures(self->low_token==__CPROVER_old(self->low_token) && self->high_token==__CPROVER_old(self->high_token) && self->is_ordered==__CPROVER_old(self->is_ordered))
 __CPROVER_ensures(__CPROVER_is_fresh(self->array,self->array_size*sizeof(task_info)))
 /* every token of the new window: kept if it was parked in the old window, invalid otherwise */
 __CPROVER_ensures( (GH_t-self->low_token < __CPROVER_old(self->array_size))
      ? ( SLOT(self,GH_t).is_valid==__CPROVER_old(SLOT(self,GH_t).is_valid) && SLOT(self,GH_t).my_token==__CPROVER_old(SLOT(self,GH_t).my_token)
          && SLOT(self,GH_t).my_object==__CPROVER_old(SLOT(self,GH_t).my_object) && SLOT(self,GH_t).my_token_ready==__CPROVER_old(SLOT(self,GH_t).my_token_ready) )
      : ( GH_t-self->low_token < self->array_size ==> !SLOT(self,GH_t).is_valid ) )
;
/* as sliced from parallel_pipeline.cpp (probes/ib_extracted.inc) */
bool input_buffer_try_put_token(struct input_buffer* self, task_info* info)
 __CPROVER_requires(__CPROVER_is_fresh(self,sizeof(*self)) && RI_SHAPE(self) && __CPROVER_is_fresh(self->array,self->array_size*sizeof(task_info)) && __CPROVER_is_fresh(info,sizeof(*info)))
 __CPROVER_requires(RI_AT(self,GH_t))
 __CPROVER_requires(self->high_token-self->low_token<=MAXSZ)                       /* at most MAXSZ tokens outstanding */
 __CPROVER_requires(self->is_ordered && info->my_token_ready ==> (info->my_token-self->low_token<MAXSZ && info->my_token-self->high_token>MAXSZ /* i.e. < high (wrapped) */))
 /* the token being put is not already parked (each item is put once per filter) */
 __CPROVER_requires(self->is_ordered && info->my_token_ready && ((info->my_token ^ GH_t)&(self->array_size-1))==0 && info->my_token-self->low_token<self->array_size ==> !SLOT(self,GH_t).is_valid)
 __CPROVER_assigns(self->array,self->array_size,self->high_token,*info,__CPROVER_object_whole(self->array)) __CPROVER_frees(self->array)
 __CPROVER_ensures(RI_SHAPE(self) || self->array_size<=4*MAXSZ)
 __CPROVER_ensures(info->my_token_ready && info->is_valid)
 __CPROVER_ensures(__CPROVER_return_value == (info->my_token!=self->low_token))                /* run now iff it is the lowest token */
 __CPROVER_ensures(__CPROVER_return_value ==> (SLOT(self,info->my_token).is_valid && SLOT(self,info->my_token).my_token==info->my_token && SLOT(self,info->my_token).my_object==info->my_object))
 __CPROVER_ensures(RI_AT(self,GH_t))
{
        info->is_valid = true;
        /* lock(array_mutex): dropped, sequential section */
        Token token;
        if( self->is_ordered ) {
            if( !info->my_token_ready ) {
                info->my_token = self->high_token++;
                info->my_token_ready = true;
            }
            token = info->my_token;
        } else
            token = self->high_token++;
        __CPROVER_assert((long)(token-self->low_token)>=0, "TBB_ASSERT");
        if( token!=self->low_token ) {
            if( token-self->low_token>=self->array_size )
                input_buffer_grow(self,  token-self->low_token+1 );
            self->array[token&(self->array_size-1)] = *info;
            return true;
        }
        return false;
}
void h_put(void){ struct input_buffer* s; task_info* i; input_buffer_try_put_token(s,i); }
