import re
S=open('/repo/include/oneapi/tbb/concurrent_vector.h').read()
def brace_end(s,i):
    d=0
    for j in range(i,len(s)):
        if s[j]=='{': d+=1
        elif s[j]=='}':
            d-=1
            if d==0: return j
def sl(sig):
    m=re.search(sig,S); assert m,sig
    i=S.index('{',m.end()-1); return S[m.start():brace_end(S,i)+1]
def ap(t,rs):
    for pat,rep,minc in rs:
        t,n=re.subn(pat,rep,t); assert n>=minc,(pat,n)
    return t
g=sl(r'iterator internal_grow_to_at_least\( size_type new_size, const Args&\.\.\. args \) ')
g=ap(g,[
 (r'iterator internal_grow_to_at_least\( size_type new_size, const Args&\.\.\. args \)','int cv_internal_grow_to_at_least(struct cv* self, size_type new_size)\nCONTRACT_g2al',1),
 (r'this->my_size\.load\([^)]*\)','ATOMIC_LOAD(self->my_size)',1),
 (r'this->my_size\.compare_exchange_weak\((\w+), (\w+)\)',r'ATOMIC_CAS(self->my_size,&\1,\2)',1),
 (r'if \(new_size == size_type\(0\)\) return iterator\(\*this, 0\);','if (new_size == (size_type)(0)) return RET_ITER_BEGIN;',1),
 (r'static_cast<int>\((\w+)\)',r'((int)(\1))',2),
 (r'return internal_grow\(old_size, new_size, args\.\.\.\);','return cv_internal_grow(self, old_size, new_size);',1),
 (r'this->segment_index_of\(','segment_index_of(',1),
 (r'this->pointers_per_embedded_table','pointers_per_embedded_table',1),
 (r'this->get_table\(\)','cv_get_table(self)',3),
 (r'this->my_embedded_table','self->my_embedded_table',2),
 (r'spin_wait_while_eq\(this->my_segment_table, self->my_embedded_table\);','SPIN_WAIT_WHILE_EQ_TABLE(self);',1),
 (r'\.load\(std::memory_order_relaxed\) == nullptr',' == NULL',2),
 (r'atomic_backoff backoff\(true\);','RG_NOP();',1),
 (r'backoff\.pause\(\);','RG_NOP();',1),
 (r'(?s)#if TBB_USE_DEBUG.*?#endif','',1),
 (r'return iterator\(\*this, size\(\)\);','return RET_ITER_END;',1),
 (r'segment_index_type','size_t',1),
 (r'while \(old_size < new_size && !ATOMIC_CAS\(self->my_size,&old_size,new_size\)\)\s*\{\}','while (old_size < new_size && !ATOMIC_CAS(self->my_size,&old_size,new_size)) LOOP_g2al_1 {}',1),
 (r'for \(size_t seg_idx = 0; seg_idx <= end_segment; \+\+seg_idx\) \{','for (size_t seg_idx = 0; seg_idx <= end_segment; ++seg_idx) LOOP_g2al_2 {',1),
 (r'while \(cv_get_table\(self\)\[seg_idx\] == NULL\) \{','while (cv_get_table(self)[seg_idx] == NULL) LOOP_g2al_3 {',1),
])
a=sl(r'(?<!_)reference internal_subscript_with_exceptions\( size_type index \) ')
a=ap(a,[
 (r'(?<!_)reference internal_subscript_with_exceptions\( size_type index \)','int* cv_internal_subscript_with_exceptions(struct cv* self, size_type index)\nCONTRACT_at',1),
 (r'this->my_size\.load\([^)]*\)','ATOMIC_LOAD(self->my_size)',1),
 (r'this->my_segment_table\.load\([^)]*\)','ATOMIC_LOAD(self->my_segment_table)',1),
 (r'tbb::detail::throw_exception\(exception_id::(\w+)\);',r'VERIF_THROW(\1);',3),
 (r'segment_table_type','segment_t*',1),
 (r'this->segment_index_of\(','segment_index_of(',1),
 (r'base_type::number_of_segments\(table\)','cv_number_of_segments(self, table)',1),
 (r'this->segment_allocation_failure_tag','segment_allocation_failure_tag',1),
 (r'return base_type::template internal_subscript</\*allow_out_of_range_access=\*/false>\(index\);','return cv_internal_subscript_noext(self, index);',1),
])
open('cv_extracted.inc','w').write(g+'\n'+a+'\n')
print(g); print(a)
