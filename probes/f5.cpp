#include <oneapi/tbb/flow_graph.h>
#include <cstdio>
#include <vector>
struct Msg { std::size_t seq; int payload; };
int main(){
  using namespace tbb::flow;
  graph g;
  sequencer_node<Msg> s(g, [](const Msg& m){ return m.seq; });
  std::vector<Msg> out;
  function_node<Msg,continue_msg> sink(g, serial, [&](const Msg& m){ out.push_back(m); return continue_msg(); });
  make_edge(s, sink);
  // park items 1,2,3 (0 missing so nothing is forwarded yet)
  s.try_put(Msg{3,303}); s.try_put(Msg{1,101}); s.try_put(Msg{2,202});
  bool acc = s.try_put(Msg{(std::size_t)-1, 999});   // tag SIZE_MAX
  std::printf("put(tag=SIZE_MAX) accepted=%d\n",(int)acc);
  s.try_put(Msg{0,0});
  g.wait_for_all();
  for(auto&m:out) std::printf("seq=%zu payload=%d\n",m.seq,m.payload);
}
