import re,sys
src=open('/repo/src/tbb/parallel_pipeline.cpp').read()
def slice_fn(sig_re):
    m=re.search(sig_re,src); assert m, sig_re
    i=src.index('{',m.end()-1); d=0; j=i
    while True:
        c=src[j]
        if c=='{': d+=1
        elif c=='}':
            d-=1
            if d==0: break
        j+=1
    return src[m.start():j+1]
rules=[]
def R(pat,rep,minc=1): rules.append((pat,rep,minc))
def apply(txt,rs):
    fired=[]
    for pat,rep,minc in rs:
        txt,n=re.subn(pat,rep,txt); fired.append((pat,n))
        assert n>=minc,(pat,n)
    return txt,fired
grow=slice_fn(r'void input_buffer::grow\( size_type minimum_size \) ')
g,f1=apply(grow,[
 (r'void input_buffer::grow\( size_type minimum_size \)', 'void input_buffer_grow(struct input_buffer* self, size_type minimum_size)\nCONTRACT_grow',1),
 (r'cache_aligned_allocator<task_info>\(\)\.allocate\((\w+)\)', r'(task_info*)alloc_nofail(\1*sizeof(task_info))',1),
 (r'cache_aligned_allocator<task_info>\(\)\.deallocate\((\w+),\s*(\w+)\)', r'free(\1)',1),
 (r'\b(array_size|array|low_token)\b', r'self->\1',3),
 (r'while\( new_size<minimum_size \)', r'while( new_size<minimum_size )\nLOOP_grow_1',1),
 (r'for\( size_type i=0; i<new_size; \+\+i \)', r'for( size_type i=0; i<new_size; ++i )\nLOOP_grow_2',1),
 (r'for\( size_type i=0; i<old_size; \+\+i, \+\+t \)', r'for( size_type i=0; i<old_size; ++i, ++t )\nLOOP_grow_3',1),
])
put=slice_fn(r'bool try_put_token\( task_info& info \) ')
p,f2=apply(put,[
 (r'bool try_put_token\( task_info& info \)', 'bool input_buffer_try_put_token(struct input_buffer* self, task_info* info)\nCONTRACT_put',1),
 (r'spin_mutex::scoped_lock lock\( array_mutex \);', '/* lock(array_mutex): dropped, sequential section */',1),
 (r'\binfo\.', 'info->',3),
 (r'= info;', '= *info;',1),
 (r'\b(array_size|array|low_token|high_token|is_ordered)\b', r'self->\1',5),
 (r'(?<![\w>])grow\(', 'input_buffer_grow(self, ',1),
 (r'ITT_NOTIFY\([^;]*\);', '',1),
 (r'__TBB_ASSERT\(\s*(.*),\s*nullptr\s*\);', r'__CPROVER_assert(\1, "TBB_ASSERT");',1),
])
open('ib_extracted.inc','w').write(g+'\n'+p+'\n')
print(f1,f2)
