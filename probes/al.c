#ifndef B
#define B 12
#endif
void h_step(void){
  int D, A, m, carry; long summ, assigned;
  __CPROVER_assume(D>=1 && D<(1<<B) && A>=0 && A<=D && m>=1 && m<=D && carry>=0 && carry<D);
  __CPROVER_assume(summ>=0 && summ+m<=D && assigned>=0 && assigned<=D);
  __CPROVER_assume(assigned*D + carry == summ*A);           /* loop invariant before */
  int tmp = m * A + carry;
  int allotted = tmp / D;
  int carry2 = tmp % D;
  __CPROVER_assert(allotted <= m, "TBB_ASSERT allotted<=max_workers");
  __CPROVER_assert((assigned+allotted)*D + carry2 == (summ+m)*A, "invariant after");
  __CPROVER_assert(carry2>=0 && carry2<D, "carry range");
}
