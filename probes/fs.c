#include <stddef.h>
typedef size_t size_type;
void h_fsplit(void){
  size_type size, left, right, grain;
  __CPROVER_assume(grain>=1 && grain<size);               /* is_divisible */
  __CPROVER_assume(right>=1 && left>=right && left<=right+1 && left<= (1UL<<20)); /* get_split(): right=n/2,left=n-right, n>=2 */
  size_type right_part = (size_type)((float)(size) * (float)(right) / (float)(left + right) + 0.5f);
  __CPROVER_assert(right_part>=1, "right part non-empty");
  __CPROVER_assert(right_part<size, "left part non-empty");
}
