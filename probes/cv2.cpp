#include <oneapi/tbb/concurrent_vector.h>
#include <cstdio>
int main(int argc,char**argv){
  tbb::concurrent_vector<char> v;
  std::size_t n = argc>1? std::strtoull(argv[1],0,0) : (1ull<<31);
  std::printf("grow_to_at_least(%zu)...\n",n); std::fflush(stdout);
  v.grow_to_at_least(n, 'x');
  std::printf("returned size=%zu last=%c\n",v.size(),v[n-1]);
}
