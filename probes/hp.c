#include <stddef.h>
#include <stdbool.h>
#define N 4096
typedef struct { int a[N]; size_t n; } vec;
/* heap property on [0,m): parent not less than child */
#define HEAP(d,m) __CPROVER_forall { size_t k; (1<=k && k<(m)) ==> !((d)->a[(k-1)>>1] < (d)->a[k]) }
void reheap(vec* data, size_t* markp)
__CPROVER_requires(__CPROVER_is_fresh(data,sizeof(*data)) && __CPROVER_is_fresh(markp,sizeof(*markp)))
__CPROVER_requires(data->n>=1 && data->n<=N && *markp<=data->n && *markp>=1)
__CPROVER_requires(HEAP(data,*markp))
__CPROVER_assigns(data->a, data->n, *markp)
__CPROVER_ensures(data->n==__CPROVER_old(data->n)-1 && *markp<=data->n)
__CPROVER_ensures(HEAP(data,*markp))
{
    size_t mark=*markp;
    size_t cur_pos = 0, child = 1;
    while(child < mark)
    __CPROVER_assigns(cur_pos, child, __CPROVER_object_whole(data->a))
    __CPROVER_loop_invariant(child==2*cur_pos+1 && cur_pos<data->n && mark<=data->n && data->n<=N)
    /* heap holds everywhere except possibly at the hole cur_pos, whose children are bounded by its parent */
    __CPROVER_loop_invariant(__CPROVER_forall { size_t k; (1<=k && k<mark && k!=cur_pos && ((k-1)>>1)!=cur_pos) ==> !(data->a[(k-1)>>1] < data->a[k]) })
    __CPROVER_loop_invariant(__CPROVER_forall { size_t k; (1<=k && k<mark && ((k-1)>>1)==cur_pos && cur_pos>=1) ==> !(data->a[(cur_pos-1)>>1] < data->a[k]) })
    __CPROVER_loop_invariant(cur_pos>=1 ==> !(data->a[(cur_pos-1)>>1] < data->a[data->n-1]))
    __CPROVER_decreases(mark-cur_pos)
    {
        size_t target = child;
        if (child + 1 < mark && (data->a[child] < data->a[child + 1]))
            ++target;
        if ((data->a[target] < data->a[data->n-1]))
            break;
        data->a[cur_pos] = data->a[target];
        cur_pos = target;
        child = (cur_pos << 1) + 1;
    }
    if (cur_pos != data->n - 1)
        data->a[cur_pos] = data->a[data->n-1];
    data->n--;
    if (mark > data->n) mark = data->n;
    *markp=mark;
}
void h(void){ vec* d; size_t* m; reheap(d,m); }
