#include <stddef.h>
#include <stdint.h>
#include <stdbool.h>
typedef size_t size_type; typedef int* segment_t;
#define pointers_per_embedded_table ((size_t)3)
#define pointers_per_long_table ((size_t)64)
struct cv { segment_t* my_segment_table; segment_t my_embedded_table[3]; size_t my_first_block; size_t my_size; bool failed; };
static segment_t long_table[64];
#define segment_allocation_failure_tag ((segment_t)1)
static size_t segment_index_of(size_t index){ return (size_t)((sizeof(uintptr_t)*8-1) ^ (uintptr_t)__builtin_clzl((uintptr_t)(index|1))); }
/* sequential reading of atomics for this target; RG variant interferes on my_size */
#define ATOMIC_LOAD(x) (x)
static bool cas_sz(size_t* f, size_t* e, size_t d){ if(*f==*e){*f=d;return true;} *e=*f; return false; }
#define ATOMIC_CAS(f,e,d) cas_sz(&(f),e,d)
#define RG_NOP() ((void)0)
#define RET_ITER_BEGIN 0
#define RET_ITER_END 1
/* ghost: did this call construct, and which range */
bool g_grow_called; size_t g_lo,g_hi; bool g_threw;
static int cv_internal_grow(struct cv* self, size_t lo, size_t hi){ g_grow_called=true; g_lo=lo; g_hi=hi; return 2; }
static segment_t* cv_get_table(struct cv* self){ return self->my_segment_table; }
static size_t cv_number_of_segments(struct cv* self, segment_t* table){ return table==self->my_embedded_table ? pointers_per_embedded_table : pointers_per_long_table; }
#define SPIN_WAIT_WHILE_EQ_TABLE(self) __CPROVER_assume(0)   /* another thread must finish: path cut (liveness not claimed) */
#define VERIF_THROW(id) do{ g_threw=true; return NULL; }while(0)
static int the_elem;
static int* cv_internal_subscript_noext(struct cv* self, size_t index){ return &the_elem; }
#define CONTRACT_g2al
#define CONTRACT_at
#define LOOP_g2al_1 __CPROVER_assigns(old_size, self->my_size) __CPROVER_loop_invariant(1)
#define LOOP_g2al_2 __CPROVER_assigns(seg_idx) __CPROVER_loop_invariant(seg_idx<=end_segment+1)
#define LOOP_g2al_3 __CPROVER_loop_invariant(1)
#include "cv_extracted.inc"
void h_g2al(void){
  struct cv v; v.my_segment_table = nondet_bool()? v.my_embedded_table : long_table; size_t n;
  size_t old=v.my_size; g_grow_called=false;
  __CPROVER_assume(n>0);
  cv_internal_grow_to_at_least(&v,n);
  /* property: the call that moved size from old to n constructs exactly [old,n) */
  __CPROVER_assert((old<n) == g_grow_called, "C11.g2al: internal_grow called iff old_size < new_size");
  __CPROVER_assert(!g_grow_called || (g_lo==old && g_hi==n), "C11.g2al: constructs exactly the claimed range");
}
void h_at(void){
  struct cv v; bool emb; v.my_segment_table = emb? v.my_embedded_table : long_table; size_t i; g_threw=false;
  int* r = cv_internal_subscript_with_exceptions(&v,i);
  __CPROVER_assert(r!=NULL || g_threw, "C11.at: returns an element or throws");
}
