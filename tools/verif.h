/* verif.h -- prelude shared by every CBMC harness */
#ifndef VERIF_H
#define VERIF_H
#include <stddef.h>
#include <stdint.h>
#include <stdbool.h>
#include <limits.h>
#ifdef VERIF_CBMC
#ifdef VACUITY
#define VACUITY_END() __CPROVER_assert(0, "VACUITY: harness end reachable")
#else
#define VACUITY_END() ((void)0)
#endif
#define VERIF_ASSERT(c, m) __CPROVER_assert((c), "TBB_ASSERT: " m)
#define VERIF_ASSUME(c) __CPROVER_assume(c)
#define OBLIGATION(c, m) __CPROVER_assert((c), m)
#else
#include <assert.h>
#define VACUITY_END() ((void)0)
#define VERIF_ASSERT(c, m) ((void)0)
#define VERIF_ASSUME(c) ((void)0)
#define OBLIGATION(c, m) ((void)0)
#endif
#define RG_NOP() ((void)0)
#define VERIF_min(a, b) ((a) < (b) ? (a) : (b))
#define VERIF_max(a, b) ((a) < (b) ? (b) : (a))
size_t nondet_size_t(void); int nondet_int(void); unsigned nondet_unsigned(void); long nondet_long(void);
unsigned long nondet_ulong(void); _Bool nondet_bool(void); unsigned char nondet_uchar(void); uintptr_t nondet_uintptr_t(void);
intptr_t nondet_intptr_t(void); float nondet_float(void); double nondet_double(void); void *nondet_ptr(void);
unsigned short nondet_ushort(void); uint64_t nondet_u64(void); uint32_t nondet_u32(void); int64_t nondet_i64(void);
#endif
