#!/bin/bash
# confirm_seed.sh <seed-id> <worktree> <outdir> '<ctest regex>' [extra demo link flags]
# Confirms a seeded change: patch applies to /repo HEAD, relevant tests pass with it, demo fails with it and passes without it.
set -u
id=$1; wt=$2; out=$3; rx=$4; extra=${5:-}
log=$out/confirm.log; : > $log
lib=$(ls -d $wt/_b/gnu_*_relwithdebinfo | head -1)
echo "== patch applies to /repo HEAD?" | tee -a $log
git -C /repo apply --check $out/patch.diff && echo yes | tee -a $log || { echo "NO" | tee -a $log; exit 1; }
cd $wt
git diff --stat | tee -a $log
echo "== build (with change) + tests: $rx" | tee -a $log
targets=$(ctest --test-dir $wt/_b -N -R "$rx" | awk '/Test +#/{print $3}' | tr '\n' ' ')
cmake --build $wt/_b -j8 --target tbb tbbmalloc $targets >> $log 2>&1 || { echo "BUILD FAILED" | tee -a $log; exit 1; }
ctest --test-dir $wt/_b -R "$rx" --timeout 600 2>&1 | tail -4 | tee -a $log
demo() { g++ -std=c++17 -O1 -fno-access-control -I$wt/include -I$wt/src $out/demo.cpp -o $out/demo.$1 -L$lib -Wl,-rpath,$lib -ltbb $extra -lpthread >> $log 2>&1 && timeout 120 $out/demo.$1 2>&1 | tail -3; echo "exit=${PIPESTATUS[0]}"; }
echo "== demo WITH change" | tee -a $log
demo with | tee -a $log
git stash -q
cmake --build $wt/_b -j8 --target tbb tbbmalloc >> $log 2>&1
echo "== demo WITHOUT change" | tee -a $log
demo without | tee -a $log
git stash pop -q
cmake --build $wt/_b -j8 --target tbb tbbmalloc >> $log 2>&1
rm -f $out/demo.with $out/demo.without
