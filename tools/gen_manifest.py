#!/usr/bin/env python3
"""Regenerates MANIFEST.json from tools/registry.py (one entry per property)."""
import json, os, sys, subprocess
HERE = os.path.dirname(os.path.abspath(__file__))
sys.path.insert(0, HERE)
import registry
V = os.path.dirname(HERE)
props = [json.loads(l) for l in open(os.path.join(V, 'properties.jsonl'))]
ids = [p['id'] for p in props]
checks, na = [], []
for pid in ids:
    r = registry.CLAIMS.get(pid)
    if r and os.path.exists(os.path.join(V, 'specs', pid, 'spec.py')):
        checks.append({
            'property_id': pid,
            'quick_cmd': './check %s --tier quick' % pid,
            'thorough_cmd': './check %s --tier thorough' % pid,
            'evidence_file': 'evidence/%s.json' % pid,
            'replay_cmd_template': './check %s --replay {path}' % pid,
            'engine': 'cbmc-contracts',
            'level_claimed': {'category': 'proof', 'text': r['text'], 'design_ref': 'DESIGN.md §5 ' + pid},
            'level_note': r['note'],
            'technique': r['technique'],
        })
    else:
        na.append({'property_id': pid, 'reason': registry.NOT_APPLICABLE.get(pid, registry.NOT_YET)})
try:
    commits = subprocess.run(['git', '-C', '/repo', 'log', '--format=%h %s', '--grep=^hook:'], stdout=subprocess.PIPE).stdout.decode().split('\n')
    commits = [c.split()[0] for c in commits if c.strip()]
except Exception:
    commits = []
m = {
    'version': 1,
    'setup_cmd': 'true',
    'hooks': {'guard': '__TBB_VERIF_CONTRACTS',
              'enable': 'none needed: every check slices the functions out of /repo\'s working tree on each run and verifies the extracted text; no source hook exists in /repo',
              'baseline_off_cmd': 'cmake --build /repo/_build && ctest --test-dir /repo/_build -j8 --timeout 900',
              'source_commits': commits, 'add_only': True},
    'engines': [{'name': 'cbmc-contracts', 'path': 'check',
                 'serves_properties': [c['property_id'] for c in checks],
                 'kind_free_text': 'contract-based deductive verification: functions sliced mechanically from /repo to C on every run (tools/cxx2c.py), contracts/loop invariants/rely-guarantee harnesses in specs/<id>/, discharged per function by goto-instrument --dfcc + cbmc 6.11 (SAT); translation validation and counterexample replay against the real C++ (tools/native.py)'}],
    'checks': checks,
    'not_applicable': na,
    'notes': registry.NOTES,
}
json.dump(m, open(os.path.join(V, 'MANIFEST.json'), 'w'), indent=1)
print('checks:', [c['property_id'] for c in checks], 'not_applicable:', [n['property_id'] for n in na])
