"""Per-property claim text for MANIFEST.json (kept next to the specs so that it stays current)."""
NOT_YET = 'no contract-level check built for this property yet in this family (see DESIGN.md §5); not claimed'
NOTES = ('exit 0 = all obligations discharged; exit 1 = a named obligation FAILED (VIOLATION line, replayed on the real C++ where a recipe exists, '
         'otherwise ends in no-failing-input-found); exit 2 = UNDECIDED (extraction break, timeout, tool error) and is never a violation. '
         'Bounded stand-ins are listed under coverage.bounded and never counted in obligations/discharged.')
NOT_APPLICABLE = {
    'C02': 'liveness (no lost wake-up) over a multi-object, fence-dependent protocol with TSO in the quantifier: sequential contracts assume SC, do not prove termination and cannot express it (DESIGN.md §6)',
    'C03': 'C++ exception capture/transport/rethrow: CBMC\'s usable front end here is C, extraction drops try/catch, so no contract can mention the behaviour (DESIGN.md §6)',
}
CLAIMS = {
    'C11': {
        'technique': 'CBMC code contracts on functions sliced from concurrent_vector.h/_segment_table.h: loop-free full-domain harnesses, dfcc loop contracts, rely/guarantee on my_size/my_first_block',
        'text': 'For all 2^64 indices the index->(segment,offset) map is a bijection onto disjoint tiling segments; at() never reads a table entry beyond the active table and throws instead (F2); the thread that moves my_size constructs exactly the range it added, for every old/new size (F1); fetch_add-claimed ranges are pairwise disjoint for any number of threads (rely/guarantee, SC atomics); an element address is a function of its index and its segment allocation only.',
        'note': 'Trusted: CBMC/goto-instrument, the cxx2c rewriter up to translation validation, SC atomics, value_type=int, internal_grow/create_segment bodies (lambdas, exceptions) stubbed; residue listed in evidence.not_decided.',
    },
}
