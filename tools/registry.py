"""Per-property claim text for MANIFEST.json (kept next to the specs so that it stays current)."""
NOT_YET = 'no contract-level check built for this property yet in this family (see DESIGN.md §5); not claimed'
NOTES = ('exit 0 = all obligations discharged; exit 1 = a named obligation FAILED (VIOLATION line, replayed on the real C++ where a recipe exists, '
         'otherwise ends in no-failing-input-found); exit 2 = UNDECIDED (extraction break, timeout, tool error) and is never a violation. '
         'Bounded stand-ins are listed under coverage.bounded and never counted in obligations/discharged.')
NOT_APPLICABLE = {
    'C02': 'liveness (no lost wake-up) over a multi-object, fence-dependent protocol with TSO in the quantifier: sequential contracts assume SC, do not prove termination and cannot express it (DESIGN.md §6)',
    'C03': 'C++ exception capture/transport/rethrow: CBMC\'s usable front end here is C, extraction drops try/catch, so no contract can mention the behaviour (DESIGN.md §6)',
}
CLAIMS = {
    'C14': {
        'technique': 'CBMC loop-free harnesses: one arbitrary operation through function_input_base::handle_operations in an arbitrary invariant state (inductive step of the aggregator batch loop) with ghost running-body count; reservable_item_buffer methods with the flag/state representation invariant',
        'text': 'Inside the aggregator handler of a function node: the concurrency counter equals the number of running bodies and never exceeds the limit, a body task is created only together with ++my_concurrency, every operation gets exactly one status, a message is run, queued or rejected - exactly one - and the reported disposition matches, forwarder_busy is cleared only when nothing was forwarded. Reservable buffers: a reservation is granted iff none is open and the front item exists; consume removes exactly that item, release puts the same item back.',
        'note': 'Trusted: the aggregator is exclusive (one handler at a time), queue/predecessor cache/task creation as stubs. Not decided: push/pull edge switching, rejection and re-offer between nodes, wait_for_all quiescence, async_node, the topology quantifier.',
    },
    'C19': {
        'technique': 'rely/guarantee proofs on CBMC with dfcc loop contracts for the collaborative_call_once state word (winner election, helper references, completion) and the ETS slot claim; loop-free / width-bounded harnesses for the ETS hashing and sizing arithmetic',
        'text': 'collaborative_call_once: for any number of threads (SC) the winner is elected only from uninitialized, only the winner completes and only once all helper references are gone, the helper count never carries into the runner pointer bits, and a call returns normally only when the state is done - also after winners that threw. ETS: every probe index lies inside the array for all hashes and lg_size in [2,63]; after the sizing loop the new array is at most half full; a slot key goes empty->k once and belongs to the thread whose CAS installed it.',
        'note': 'Trusted: run_once/assist/lifetime_guard as stubs (run_once ends through the sliced set_completion_state), spin_wait contracts, SC atomics, assumption A (a freshly changed runner word is not already saturated with 127 helpers). Not decided: runner lifetime, the functor running once inside run_once (C01), table_lookup as a whole, combine/iteration, termination.',
    },
    'C20': {
        'technique': 'thread-modular rely/guarantee proof on CBMC of the two-party hand-shake over suspend_point_type::m_stack_state: each party\'s sliced code is proved against the other party\'s possible steps, ghost push counter with owed-by markers',
        'text': 'Given one resume() call per suspension: in both orders of the resumer\'s and the leaver\'s exchanges exactly one resume task is pushed, never while the stack is still active, only by the party that owes it; the state follows A->S->N or A->N->S->N; recall_owner marks a suspended stack notified and raises the recall flag.',
        'note': 'Trusted: stream push / arena references / advertise as stubs (push counted), SC atomics. Not decided: the coroutine switch, other post-resume actions, owner-recall wake-up (liveness), the enclosing wait (C01).',
    },
    'C16': {
        'technique': 'CBMC loop-free harnesses with contract stubs (limit_delta, get_critical_task), rely/guarantee on the slot flag and dfcc loop contracts on the slot search, sliced from src/tbb',
        'text': 'limit_delta equals the change in granted workers min(limit,new)-min(limit,new-delta) for all int triples without overflow; get_critical_task re-spawns a displaced task exactly once in its own context and under its own isolation tag and runs the critical task under the critical task\'s; try_occupy returns true only to the caller whose exchange flipped the flag; occupy_free_slot returns out_of_arena or an index inside [reserved|0, num_slots) that this caller claimed (a worker never a reserved one), leaves no other slot claimed, and my_limit only grows to cover it - for every arena size and any interference on the slots.',
        'note': 'Trusted: arena::get_critical_task / r1::spawn / observers as stubs, FastRandom arbitrary, SC atomics. Not decided: instant thread counts, observer pairing, global_control, priorities over time, mandatory concurrency, update_allotment, update_request.',
    },
    'C12': {
        'technique': 'CBMC loop-free / width-bounded-unwinding harnesses on the split-order key arithmetic (bit reversal table, regular/dummy keys, parent buckets) and rely/guarantee on my_bucket_count for its writers, sliced from _concurrent_unordered_base.h and _machine.h',
        'text': 'For all 2^64 hashes and every table size 2^k: bit reversal is an involution mapping bit i to 63-i; regular keys are odd, dummy keys even; an element sorts after its own bucket dummy and no other bucket dummy lies in between (so it stays reachable after every doubling); parent(b) < b and dummy(parent) < dummy(b); hash % 2^k is the low-bit mask. The bucket count stays a power of two and never shrinks under rehash() and adjust_table_size() for any number of threads (SC).',
        'note': 'Trusted: others only replace the bucket count by a larger power of two (rely; reserve() not proved), SC atomics. Not decided: lock-free list insertion, dummy-node initialisation races, skip list linking, traversal-sees-each-once.',
    },
    'C06': {
        'technique': 'CBMC contracts on parallel_sort.h: the probe loop of quick_sort_pretest_body under a dfcc loop contract with a ghost adjacent pair, the serial probe unwound completely, parallel_for as a stub that runs the body on an arbitrary chunk; loop-free harnesses for dispatch and median selection',
        'text': 'For every length >= 500 and an arbitrary adjacent pair (p,p+1): if that pair is an inversion the whole sequence is handed to the quicksort - the pre-sortedness probe can never declare an unsorted input sorted, and it never compares a position outside [begin,end); parallel_sort dispatches < 500 elements to the serial sort, empty/reversed pairs to nothing; median_of_three returns one of its candidates holding the median value.',
        'note': 'Trusted: parallel_for tiles the probe range (C05), the sorts themselves (stubs), comparator as an arbitrary relation on positions. Not decided: parallel_scan, reduce join order, split_range partition, scheduler dependence (C01).',
    },
    'C13': {
        'technique': 'CBMC dfcc loop contracts for the bookkeeping and memory safety of heapify/reheap at every size; bounded unwinding (labelled bounded) for heap order, multiset preservation and whole batches through handle_operations, all on text sliced from concurrent_priority_queue.h',
        'text': 'For every heap size: reheap removes exactly one element, heapify merges all, mark never exceeds size, every index is in bounds. Bounded (<= 6 elements quick / 9 thorough; batches of <= 3 operations on <= 4 elements): data[0..mark) stays a max-heap, the multiset is preserved, every operation of a batch gets a status, size changes by +-1 per success, a pop fails only on an empty queue and never returns less than an element queued before the batch that is still queued.',
        'note': 'Trusted: std::vector modelled as array+length, Compare=std::less<int>, the aggregator runs the handler on one thread at a time. Not decided: heap order beyond the bound (needs quantifiers), aggregator exclusivity, linearizability across batches, exceptions from element copy.',
    },
    'C10': {
        'technique': 'CBMC loop-free / width-bounded-unwinding harnesses on the segment, mask and parent arithmetic sliced from concurrent_hash_map.h',
        'text': 'For all 2^64 bucket indices the bucket->(segment,offset) map is a bijection onto tiling segments and get_bucket lands inside the segment allocation; for every hash and every pair of masks m_old < m, check_rehashing_collision examines exactly the bucket the key occupied at the first table size where it left its old bucket and reports a collision iff that bucket is already rehashed; the parent of bucket h is h with its top bit cleared (smaller index), its mask the parent mask extended by one bit.',
        'note': 'Trusted: rehash_required/bucket contents as a recording stub, bucket and element locks are spin_rw_mutex (C08). Not decided: every interleaving fact of lookup/insert/erase, accessor lifetime, rehash_bucket list surgery, growth protocol.',
    },
    'C09': {
        'technique': 'CBMC loop-free full-domain harnesses on the ticket arithmetic + rely/guarantee proofs (monotone counters, Skolem claim of another thread) with dfcc loop contracts on the ticket-claim loops sliced from concurrent_queue.h',
        'text': 'For all 2^64 tickets: 8 consecutive tickets go to 8 different lanes, k and k+8 meet in the same lane in consecutive slots, (lane, turn) determines the ticket, slot < items_per_page <= 32. For any number of threads under SC: pop tickets are unique and only taken while tail - ticket > 0; empty is reported only from an instant with no item; bounded push tickets are unique and only taken while size < capacity; full is reported only from an instant with size() >= capacity (negative sizes are never full).',
        'note': 'Trusted: micro_queue push/pop (lane turnstiles, pages) as stubs, SC atomics, counters do not wrap within 2^62. Not decided: linearizability proper, page hand-over, invalid-entry accounting on exceptions, blocking push/pop/abort.',
    },
    'C18': {
        'technique': 'CBMC loop-free harnesses on the tbbmalloc entry points sliced from frontend.cpp with allocation callees as may-fail stubs; scalable_calloc\'s multiply/divide overflow test proved for size_t bound to 8- and 16-bit types (labelled bounded) plus multiplier-free 64-bit facts',
        'text': 'scalable_posix_memalign / aligned_malloc / aligned_realloc / realloc: illegal alignment or size gives EINVAL/NULL without touching *memptr or allocating; a failing callee gives ENOMEM/NULL, nothing freed; size-0 and NULL-pointer cases as documented, for all argument values. scalable_calloc: NULL/ENOMEM iff nobj*size overflows, exact request otherwise, zero-fill over exactly the request - bounded: 8/16-bit size_t; at 64 bits only the control-flow facts that need no multiplier.',
        'note': 'Trusted: callee stubs (reallocAligned is proved under C17). Not decided: 64-bit exact overflow test, k-th OS allocation failure inside refill paths, memory pools (raw-region accounting, pool_identify), getFromLLOCache wrap guard.',
    },
    'C15': {
        'technique': 'rely/guarantee over lock-protected sections (each scoped_lock section of limiter_node is one atomic step between arbitrary interference preserving a ghost accounting invariant) + loop-free contracts on sequencer_node::internal_push and the item_buffer methods it uses, all sliced from flow_graph.h',
        'text': 'limiter_node: for any number of threads putting, forwarding and decrementing, the counters account exactly for delivered-minus-decremented messages and that number never exceeds the threshold; every registered try is settled. sequencer_node: a tag below head or an occupied tag is rejected, an accepted item sits at its own tag inside [head,tail) and no other parked item changes (F5: tag SIZE_MAX is a KNOWN-FINDING).',
        'note': 'Trusted: my_mutex serialises the sections (C08), successor/predecessor caches as nondeterministic stubs, grow_my_array as a contract stub. Preconditions: 0 < decrement <= delivered-and-not-decremented. Not decided: join_node, queue/priority ordering, other node types, port interleavings.',
    },
    'C07': {
        'technique': 'CBMC function contracts + loop contracts (dfcc) on input_buffer sliced from src/tbb/parallel_pipeline.cpp; modular proof of try_put_token against grow\'s proved contract; ghost-token (Skolem) representation invariant',
        'text': 'For every buffer size up to 2^16 and every token: grow keeps each parked item in the slot of its own token and leaves no stale valid slot; try_put_token assigns a token once, lets the caller run the item iff it carries the lowest outstanding token, otherwise parks it unmodified inside the window without touching any other parked item; try_to_spawn_task_for_next_token advances low_token by one, releases exactly the item parked under the new low_token (ordered stages: in token order), once.',
        'note': 'Trusted: the array_mutex serialises the three methods (spin_mutex is proved under C08), allocation succeeds, spawn_stage_task stub (C01). Not decided: live-token accounting in stage_task, end_of_input races, unordered buffers\' item identity, return of the call.',
    },
    'C17': {
        'technique': 'CBMC loop-free full-domain harnesses on functions sliced from src/tbbmalloc/frontend.cpp (size classes, slab bump pointer, interior-pointer recovery, reallocAligned with contract stubs); exhaustive translation validation against the real allocator',
        'text': 'For every request size the bin\'s object is big enough, naturally aligned, fits a slab and maps back to its bin; bump allocation places objects inside the slab payload at multiples of objectSize from the slab end, never the same address twice; an interior pointer is mapped to the object that contains it; scalable_realloc/aligned_realloc answer in place only when the block really is big enough and aligned, otherwise copy min(old,new) bytes inside both blocks and free the old block exactly once, and leave it alone when the new allocation fails.',
        'note': 'Trusted: bsr semantics, callee stubs in reallocAligned, sizeof(Block)==128 (checked natively). Not decided: cross-thread free/public free list/orphans, backend coalescing (disjointness between slabs and large blocks), getFromLLOCache placement, allocateAligned as a whole.',
    },
    'C05': {
        'technique': 'CBMC code contracts on functions sliced from blocked_range*.h / partitioner.h / parallel_for.h: loop-free full-domain harnesses (incl. IEEE float), dfcc loop contracts with ghost accounting, complete unwinding of the 8-slot range pool',
        'text': 'Every split of a blocked_range (all sizes/grains, size_t/int/unsigned char; even and proportional) yields two adjacent non-empty halves; partitioner divisors are conserved and never underflow; the 8-slot range pool stays an ordered tiling under split_to_fill/pop_back/pop_front; the execute loops only ever split a divisible range, never run an empty one and what is offered plus what is run tiles the original range, for every steal/demand decision (nondeterministic stubs); parallel_for(first,last,step) trip count and k-th index for the complete domain of 8-bit Index types. F3 (signed span overflow) and F4 (2-D/3-D split above 2^52) are reported as KNOWN-FINDING.',
        'note': 'Trusted: start_for::offer_work/run_body/spawn as contract stubs (a spawned task runs once is C01), SC not relevant (sequential code), CBMC float semantics. Not decided: wider Index types for parallel_for_impl (division beyond SAT reach), dynamic_grainsize_mode::work_balance as a whole, blocked_nd_range, parallel_for_each, parallel_invoke.',
    },
    'C08': {
        'technique': 'rely/guarantee proofs on CBMC: every atomic primitive of the sliced mutex methods is preceded by arbitrary interference of any number of threads that preserves a ghost-census invariant; dfcc loop contracts for the spin loops; MCS token protocol for queuing_mutex',
        'text': 'spin_mutex, spin_rw_mutex (all 8 methods incl. upgrade/downgrade) and queuing_mutex::scoped_lock (acquire/try_acquire/release): at most one writer/holder, no reader with a writer, try_* truthful and traceless on failure, upgrade ends as sole writer, downgrade is one atomic step, the queue lock token is handed over exactly once - for any number of threads and every interleaving under sequentially consistent atomics.',
        'note': 'Trusted: SC atomics (memory orders dropped), closed-world scan for the state word, spin_wait_while_eq contract. Not decided: queuing_rw_mutex, rw_mutex/mutex (waitable-atomic variants), RTM variants, liveness, memory-model visibility.',
    },
    'C11': {
        'technique': 'CBMC code contracts on functions sliced from concurrent_vector.h/_segment_table.h: loop-free full-domain harnesses, dfcc loop contracts, rely/guarantee on my_size/my_first_block',
        'text': 'For all 2^64 indices the index->(segment,offset) map is a bijection onto disjoint tiling segments; at() never reads a table entry beyond the active table and throws instead (F2); the thread that moves my_size constructs exactly the range it added, for every old/new size (F1); fetch_add-claimed ranges are pairwise disjoint for any number of threads (rely/guarantee, SC atomics); an element address is a function of its index and its segment allocation only.',
        'note': 'Trusted: CBMC/goto-instrument, the cxx2c rewriter up to translation validation, SC atomics, value_type=int, internal_grow/create_segment bodies (lambdas, exceptions) stubbed; residue listed in evidence.not_decided.',
    },
}
