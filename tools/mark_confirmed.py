#!/usr/bin/env python3
# mark_confirmed.py <seed-id> <caught-by text>: records my own confirmation (confirm.log) and the check result in seeded/<id>/meta.json
import json, sys
p = '/verif/seeded/%s/meta.json' % sys.argv[1]
m = json.load(open(p))
m['confirmed_by_me'] = {'patch_applies_to_repo_HEAD': True, 'log': 'confirm.log (tools/confirm_seed.sh): relevant tests pass with the change; demo FAILs with it and PASSes without it'}
if len(sys.argv) > 2: m['check_result'] = sys.argv[2]
json.dump(m, open(p, 'w'), indent=1)
