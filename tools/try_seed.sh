#!/bin/bash
# try_seed.sh <seed-dir-name> <pid> [extra check args]: apply a seeded patch to /repo, run the check, undo.
sd=/verif/seeded/$1; pid=$2; shift 2
git -C /repo apply $sd/patch.diff || exit 9
cd /verif; ./check $pid "$@" > /tmp/try_$pid.out 2>&1; rc=$?
git -C /repo apply -R $sd/patch.diff
git -C /verif checkout -- evidence/$pid.json 2>/dev/null
grep -E "^(VIOLATION|UNDECIDED|KNOWN|PASS|FAIL)" /tmp/try_$pid.out | cut -c1-700
echo "exit=$rc"
