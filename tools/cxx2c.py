"""cxx2c -- slice functions out of oneTBB's C++ sources and rewrite them to C.

The rewriter is a fixed library of token-level rules.  It never touches
operators, constants, conditions, statement order or control flow, and it never
deletes a statement (a dropped call becomes the no-op expression RG_NOP()).
Every rule is must-fire: a rule that fires fewer times than the spec expects
raises ExtractionBreak, which the driver reports as UNDECIDED (exit 2) -- never
as a pass and never as a violation.
"""
import os
import re

REPO = os.environ.get('VERIF_REPO', '/repo')


class ExtractionBreak(Exception):
    pass


_cache = {}


def load(rel):
    p = os.path.join(REPO, rel)
    if p not in _cache:
        try:
            with open(p) as f:
                _cache[p] = f.read()
        except OSError as e:
            raise ExtractionBreak('cannot read %s: %s' % (rel, e))
    return _cache[p]


_mask_cache = {}


def mask(text):
    if len(text) > 20000:
        k = (len(text), hash(text))
        if k not in _mask_cache:
            _mask_cache[k] = _mask(text)
        return _mask_cache[k]
    return _mask(text)


def _mask(text):
    """Same-length copy of text with comments, string and char literals blanked
    (newlines kept) so that brace matching and regex anchoring ignore them."""
    out = list(text)
    i, n = 0, len(text)
    while i < n:
        c = text[i]
        if c == '/' and i + 1 < n and text[i + 1] == '/':
            j = text.find('\n', i)
            j = n if j < 0 else j
            for k in range(i, j):
                out[k] = ' '
            i = j
        elif c == '/' and i + 1 < n and text[i + 1] == '*':
            j = text.find('*/', i + 2)
            j = n if j < 0 else j + 2
            for k in range(i, j):
                if out[k] != '\n':
                    out[k] = ' '
            i = j
        elif c == '"' or (c == "'" and not (i > 0 and text[i - 1].isalnum())):
            q = c
            j = i + 1
            while j < n and text[j] != q:
                if text[j] == '\\':
                    j += 1
                j += 1
            for k in range(i + 1, min(j, n)):
                if out[k] != '\n':
                    out[k] = ' '
            i = j + 1
        else:
            i += 1
    return ''.join(out)


def strip_comments(text):
    m = mask(text)
    out = []
    i, n = 0, len(text)
    while i < n:
        if text[i] == '/' and i + 1 < n and text[i + 1] in '/*' and m[i] == ' ':
            # comment start (mask blanked it)
            if text[i + 1] == '/':
                j = text.find('\n', i)
                j = n if j < 0 else j
            else:
                j = text.find('*/', i + 2)
                j = n if j < 0 else j + 2
            out.append('\n' * text[i:j].count('\n'))
            i = j
        else:
            out.append(text[i])
            i += 1
    return ''.join(out)


def match_close(masked, i, open_ch='{', close_ch='}'):
    assert masked[i] == open_ch, (masked[i - 10:i + 10])
    d = 0
    for j in range(i, len(masked)):
        ch = masked[j]
        if ch == open_ch:
            d += 1
        elif ch == close_ch:
            d -= 1
            if d == 0:
                return j
    raise ExtractionBreak('unbalanced %s at offset %d' % (open_ch, i))


def line_of(text, idx):
    return text.count('\n', 0, idx) + 1


class Slice:
    def __init__(self, rel, start, end, text, line):
        self.rel, self.start, self.end, self.text, self.line = rel, start, end, text, line

    def __repr__(self):
        return '<Slice %s:%d (%d chars)>' % (self.rel, self.line, len(self.text))


def slice_block(rel, sig, within=None, nth=0, ctor=False, keep_comments=False):
    """Locate the nth match of regex `sig` (outside comments) in file `rel`
    (optionally inside the brace block that follows regex `within`) and return
    the text from the match start to the matching close brace of the first '{'
    that follows it."""
    text = load(rel)
    m = mask(text)
    lo, hi = 0, len(text)
    if within:
        w = re.search(within, m)
        if not w:
            raise ExtractionBreak('%s: enclosing block %r not found' % (rel, within))
        b = m.find('{', w.end() - 1)
        lo, hi = w.start(), match_close(m, b) + 1
    hits = [x for x in re.finditer(sig, m[lo:hi])]
    if len(hits) <= nth:
        raise ExtractionBreak('%s: signature %r not found (%d hits)' % (rel, sig, len(hits)))
    h = hits[nth]
    s = lo + h.start()
    b = m.find('{', lo + h.end() - 1)
    semi = m.find(';', lo + h.end() - 1)
    if b < 0 or (0 <= semi < b and not ctor):
        raise ExtractionBreak('%s: %r is a declaration, no body' % (rel, sig))
    if ctor:
        # skip a constructor initialiser list: the body is the first '{' that
        # follows a ')' or '}' (ignoring whitespace) at paren depth 0 and is
        # not itself a brace-initialiser (those are preceded by an identifier)
        j = lo + h.end() - 1
        depth = 0
        while j < hi:
            ch = m[j]
            if ch == '(':
                depth += 1
            elif ch == ')':
                depth -= 1
            elif ch == '{' and depth == 0:
                k = j - 1
                while k > 0 and m[k].isspace():
                    k -= 1
                if m[k] in ')}' or m[k] == ':' or not (m[k].isalnum() or m[k] == '_'):
                    b = j
                    break
                j = match_close(m, j)
            j += 1
    e = match_close(m, b)
    snippet = text[s:e + 1]
    if not keep_comments:
        snippet = strip_comments(snippet)
    return Slice(rel, s, e + 1, snippet, line_of(text, s))


def slice_class(rel, sig):
    return slice_block(rel, sig)


def slice_stmt(rel, sig, nth=0):
    """Slice a single declaration/statement: from regex match start to the next ';'."""
    text = load(rel)
    m = mask(text)
    hits = list(re.finditer(sig, m))
    if len(hits) <= nth:
        raise ExtractionBreak('%s: statement %r not found' % (rel, sig))
    h = hits[nth]
    e = m.find(';', h.end() - 1)
    return Slice(rel, h.start(), e + 1, strip_comments(text[h.start():e + 1]), line_of(text, h.start()))


def split_args(s):
    """Split a balanced argument string at top-level commas."""
    args, d, cur = [], 0, []
    for ch in s:
        if ch in '([{<' and not (ch == '<'):
            d += 1
        elif ch in ')]}':
            d -= 1
        if ch == ',' and d == 0:
            args.append(''.join(cur).strip())
            cur = []
        else:
            cur.append(ch)
    if cur or args:
        args.append(''.join(cur).strip())
    return args


def sub_call(text, prefix, fn, counter=None):
    """Replace every `prefix(args...)` (prefix is a regex that ends just before
    the opening parenthesis) by fn(match, [args]).  Balanced parentheses."""
    out, pos, n = [], 0, 0
    rx = re.compile(prefix + r'\s*\(')
    while True:
        m = rx.search(text, pos)
        if not m:
            break
        o = m.end() - 1
        c = match_close(text, o, '(', ')')
        args = split_args(text[o + 1:c])
        rep = fn(m, args)
        if rep is None:
            out.append(text[pos:m.end()])
            pos = m.end()
            continue
        out.append(text[pos:m.start()])
        out.append(rep)
        pos = c + 1
        n += 1
    out.append(text[pos:])
    if counter is not None:
        counter[0] += n
    return ''.join(out), n


class Rewriter:
    """Applies rules and records firings. `fired` maps rule name -> count."""

    def __init__(self, name):
        self.name = name
        self.fired = {}
        self.log = []

    def _rec(self, rule, n, minc, maxc=None):
        self.fired[rule] = self.fired.get(rule, 0) + n
        if n < minc or (maxc is not None and n > maxc):
            raise ExtractionBreak('%s: rule %r fired %d times, expected %s%s' % (
                self.name, rule, n, minc, '' if maxc is None else '..%d' % maxc))

    def sub(self, text, pat, rep, minc=1, maxc=None, name=None, flags=0):
        text, n = re.subn(pat, rep, text, flags=flags)
        self._rec(name or pat, n, minc, maxc)
        return text

    def lit(self, text, old, new, minc=1, maxc=None, name=None):
        n = text.count(old)
        self._rec(name or old, n, minc, maxc)
        return text.replace(old, new)

    def call(self, text, prefix, fn, minc=1, maxc=None, name=None):
        total = 0
        for _ in range(20):   # to a fixed point: nested occurrences inside arguments
            text, n = sub_call(text, prefix, fn)
            total += n
            if n == 0:
                break
        self._rec(name or prefix, total, minc, maxc)
        return text

    def ptr_rel(self, text, rhs, minc=1):
        """`X <= rhs` / `X > rhs` on unrelated pointers -> PTR_LE/PTR_GT(X, rhs): compared as integers
        (what the compiled code does; listed assumption)"""
        lhs = r'(ATOMIC_LOAD\([^()]*\)|\w+\[\w+\])'
        n = 0
        for op, mac in (('<=', 'PTR_LE'), ('>', 'PTR_GT')):
            text, k = re.subn(lhs + r'\s*' + re.escape(op) + r'\s*' + rhs, mac + r'(\1, ' + rhs.replace('\\', '') + ')', text)
            n += k
        self._rec('ptr-rel', n, minc)
        return text

    def scoped_locks(self, text, decl_pat, minc=1, maxc=None, lock='LOCK_MUTEX', unlock='UNLOCK_MUTEX'):
        """RAII lock objects `T::scoped_lock name(mutex);` matched by decl_pat (group 1 = the mutex expression)
        -> `lock(mutex);` at the declaration and `unlock(mutex);` where the object goes out of scope: before the closing brace
        of the enclosing block and in front of every `return` that lies textually inside the scope."""
        n = 0
        while True:
            m = re.search(decl_pat, text)
            if not m:
                break
            n += 1
            mu = m.group(1).strip()
            mk = mask(text)
            # enclosing block: scan backwards for the unmatched '{'
            d, i = 0, m.start() - 1
            while i >= 0:
                if mk[i] == '}':
                    d += 1
                elif mk[i] == '{':
                    if d == 0:
                        break
                    d -= 1
                i -= 1
            if i < 0:
                raise ExtractionBreak('%s: scoped lock outside a block' % self.name)
            close = match_close(mk, i)
            body = text[m.end():close]
            bmask = mk[m.end():close]
            out, pos = [], 0
            for r in re.finditer(r'\breturn\b[^;]*;', bmask):
                out.append(body[pos:r.start()])
                out.append('{ %s(%s); %s }' % (unlock, mu, body[r.start():r.end()]))
                pos = r.end()
            out.append(body[pos:])
            text = text[:m.start()] + '%s(%s);' % (lock, mu) + ''.join(out) + '%s(%s); ' % (unlock, mu) + text[close:]
        self._rec('scoped_lock -> %s/%s at scope exit' % (lock, unlock), n, minc, maxc)
        return text

    # ---- rule library -------------------------------------------------
    def casts(self, text, minc=0):
        """static_cast<T>(e) / reinterpret_cast<T>(e) / const_cast<T>(e) -> ((T)(e))"""
        def fn(m, a):
            return '((%s)(%s))' % (m.group(1).strip(), ', '.join(a))
        return self.call(text, r'\b(?:static_cast|reinterpret_cast|const_cast)\s*<([^<>]*(?:<[^<>]*>)?[^<>]*)>', fn, minc, name='cast')

    def fcasts(self, text, types, minc=0):
        """functional casts T(e) -> ((T)(e)) for the listed type names"""
        def fn(m, a):
            return '((%s)(%s))' % (m.group(1), ', '.join(a))
        return self.call(text, r'(?<![\w.>:])(%s)' % '|'.join(types), fn, minc, name='fcast')

    def atomics(self, text, fields, minc=1, obj=r''):
        """std::atomic member operations on the listed fields -> ATOMIC_* macros.
        Memory-order arguments are dropped (SC assumed, listed assumption)."""
        total = 0
        mo = re.compile(r'^\s*(?:std::)?memory_order[_:]*\w+\s*$')
        for f in fields:
            fx = obj + r'\b' + f + r'\b'

            def mk(op, arity):
                def fn(m, a, op=op, arity=arity):
                    a = [x for x in a if not mo.match(x)]
                    if len(a) != arity:
                        raise ExtractionBreak('%s: atomic %s on %s has %d args' % (self.name, op, m.group(0), len(a)))
                    tgt = m.group('o')
                    if op == 'CAS':
                        return 'ATOMIC_CAS(%s, &(%s), %s)' % (tgt, a[0], a[1])
                    return 'ATOMIC_%s(%s)' % (op, ', '.join([tgt] + a))
                return fn
            for meth, op, ar in (('load', 'LOAD', 0), ('store', 'STORE', 1), ('exchange', 'XCHG', 1),
                                 ('compare_exchange_strong', 'CAS', 2), ('compare_exchange_weak', 'CAS', 2),
                                 ('fetch_add', 'FETCH_ADD', 1), ('fetch_sub', 'FETCH_SUB', 1),
                                 ('fetch_or', 'FETCH_OR', 1), ('fetch_and', 'FETCH_AND', 1)):
                text, n = sub_call(text, r'(?P<o>(?:\w+(?:->|\.))*' + fx + r'(?:\[[^\]]*\])?)\.' + meth, mk(op, ar))
                total += n
            # operator forms
            for pat, rep in ((r'(?P<o>(?:\w+(?:->|\.))*' + fx + r')\s*\+=\s*([^;]*);', r'ATOMIC_FETCH_ADD(\g<o>, \2);'),
                             (r'(?P<o>(?:\w+(?:->|\.))*' + fx + r')\s*-=\s*([^;]*);', r'ATOMIC_FETCH_SUB(\g<o>, \2);'),
                             (r'(?P<o>(?:\w+(?:->|\.))*' + fx + r')\s*\|=\s*([^;]*);', r'ATOMIC_FETCH_OR(\g<o>, \2);'),
                             (r'(?P<o>(?:\w+(?:->|\.))*' + fx + r')\s*&=\s*([^;]*);', r'ATOMIC_FETCH_AND(\g<o>, \2);'),
                             (r'\+\+(?P<o>(?:\w+(?:->|\.))*' + fx + r')\b', r'ATOMIC_PREINC(\g<o>)'),
                             (r'--(?P<o>(?:\w+(?:->|\.))*' + fx + r')\b', r'ATOMIC_PREDEC(\g<o>)'),
                             (r'(?P<o>(?:\w+(?:->|\.))*' + fx + r')\+\+', r'ATOMIC_POSTINC(\g<o>)'),
                             (r'(?P<o>(?:\w+(?:->|\.))*' + fx + r')--', r'ATOMIC_POSTDEC(\g<o>)')):
                text, n = re.subn(pat, rep, text)
                total += n
        self._rec('atomic', total, minc)
        return text

    def asserts(self, text, minc=0, macro='__TBB_ASSERT'):
        """__TBB_ASSERT(c, "msg") -> VERIF_ASSERT(c, "msg") : proof obligations"""
        def fn(m, a):
            msg = a[1] if len(a) > 1 and a[1].startswith('"') else '"%s"' % a[0].replace('"', "'").replace('\\', '')
            if len(a) > 1 and not a[1].startswith('"'):
                msg = '"%s"' % a[0].replace('"', "'").replace('\\', '')
            return 'VERIF_ASSERT(%s, %s)' % (a[0], msg)
        return self.call(text, r'\b' + macro + r'(?:_EX)?', fn, minc, name='assert')

    def this_arrow(self, text, minc=0, to='self->'):
        return self.sub(text, r'\bthis->', to, minc, name='this->')

    def fields(self, text, fields, minc=0, to='self->'):
        """bare member names -> self->member"""
        pat = r'(?<![\w.>])(%s)\b(?!\s*\()' % '|'.join(fields)
        return self.sub(text, pat, to + r'\1', minc, name='field')

    def methods(self, text, names, prefix, minc=0, selfarg='self'):
        """bare or this-> member calls m(args) -> prefix_m(self[, args])"""
        def fn(m, a):
            a = [x for x in a if x != '']
            return '%s%s(%s)' % (prefix, m.group(1), ', '.join([selfarg] + a) if selfarg else ', '.join(a))
        return self.call(text, r'(?<![\w.>:])(?:this->|self->)?(%s)' % '|'.join(names), fn, minc, name='method')

    def nop_calls(self, text, pats, minc=0):
        """calls that are safety-neutral (tracing, backoff, poison) -> RG_NOP()"""
        n = 0
        for p in pats:
            text, k = sub_call(text, p, lambda m, a: 'RG_NOP()')
            n += k
        self._rec('nop-call', n, minc)
        return text

    def std(self, text):
        text = re.sub(r'\bnullptr\b', 'NULL', text)
        text = re.sub(r'\bstd::(size_t|uintptr_t|intptr_t|uint64_t|int64_t|uint32_t|int32_t|uint8_t|ptrdiff_t|uint16_t)\b', r'\1', text)
        text = re.sub(r'\bstd::(min|max)\b', r'VERIF_\1', text)
        text = re.sub(r'\b(constexpr|inline|noexcept|override|explicit|mutable|final)\b', '', text)
        text = re.sub(r'\[\[\w+\]\]', '', text)
        return text

    def number_sites(self, text, fname, ops=('LOAD', 'STORE', 'XCHG', 'CAS', 'FETCH_ADD', 'FETCH_SUB', 'FETCH_OR', 'FETCH_AND',
                                              'PREINC', 'PREDEC', 'POSTINC', 'POSTDEC'), expect=None, by_kind=False):
        cnt = [0]
        kinds = {}

        def site(m):
            cnt[0] += 1
            if by_kind:   # <fname>_<OP>_<k>: robust against added/removed sites of other kinds
                k = m.group(1)[len('ATOMIC_'):]
                kinds[k] = kinds.get(k, 0) + 1
                return '%s_AT(%s_%s_%d, ' % (m.group(1), fname, k, kinds[k])
            return '%s_AT(%s_%d, ' % (m.group(1), fname, cnt[0])
        text = re.sub(r'\b(ATOMIC_(?:%s))\(' % '|'.join(ops), site, text)
        if expect is not None and cnt[0] != expect:
            raise ExtractionBreak('%s: %d atomic sites in %s, spec expects %d' % (self.name, cnt[0], fname, expect))
        self.fired['sites:' + fname] = cnt[0]
        return text


LOOP_DEFICIT = {}


def tag_loops(text, fname, rw=None, expect=None, names=None):
    """Attach LOOP_<fname>_<k> macro after each loop header (for/while), k in
    textual order.  `do { } while(c);` loops get the macro after `do`.
    names: optional list of (regex on the loop header text, suffix): a loop whose header matches gets LOOP_<fname>_<suffix>
    instead of its ordinal, so that a change that removes or adds ANOTHER loop does not shift the contracts."""
    m = mask(text)
    out, pos, k = [], 0, 0
    for h in re.finditer(r'\b(for|while|do)\b', m):
        if h.start() < pos:
            continue
        kw = h.group(1)
        if kw == 'do':
            k += 1
            out.append(text[pos:h.end()])
            out.append(' LOOP_%s_%d ' % (fname, k))
            pos = h.end()
            continue
        o = m.find('(', h.end())
        if o < 0 or m[h.end():o].strip():
            continue
        c = match_close(m, o, '(', ')')
        # `} while (c);` closing a do-loop: skip
        rest = m[c + 1:c + 40].lstrip()
        if kw == 'while' and rest.startswith(';'):
            prev = m[:h.start()].rstrip()
            if prev.endswith('}'):
                continue
        k += 1
        out.append(text[pos:c + 1])
        tag = str(k)
        for pat, suffix in (names or ()):
            if re.search(pat, text[h.start():c + 1]):
                tag = suffix
                break
        if rw is not None and names:
            rw.fired['loop:%s_%s' % (fname, tag)] = rw.fired.get('loop:%s_%s' % (fname, tag), 0) + 1
        out.append(' LOOP_%s_%s ' % (fname, tag))
        pos = c + 1
    out.append(text[pos:])
    if expect == 1 and k == 0 and not names:
        # the only loop of the function is gone (e.g. `while` -> `if`): nothing can be mis-attached, the loop-free body is checked against
        # the same contract; prove.py lowers its "loop contract silently dropped" expectation by this deficit
        LOOP_DEFICIT[fname] = 1
    elif expect is not None and k != expect:
        raise ExtractionBreak('%s: %d loops, spec expects %d' % (fname, k, expect))
    if rw is not None:
        rw.fired['loops:' + fname] = k
    return ''.join(out)


def cpp_resolve(text, macros, name='cpp'):
    """Resolve #if/#elif/#else/#endif in a sliced snippet for the stated macro values.
    Every identifier used in a condition must be listed in `macros` (else ExtractionBreak)."""
    lines = text.split('\n')
    out = []
    stack = []   # entries: [taken_before, active_now, parent_active]

    def ev(cond):
        c = re.sub(r'/\*.*?\*/|//.*', '', cond)
        def dfn(m):
            k = m.group(1)
            if k not in macros:
                raise ExtractionBreak('%s: macro %s in "#if %s" has no stated value' % (name, k, cond.strip()))
            return '1' if macros[k] is not None else '0'
        c = re.sub(r'defined\s*\(?\s*(\w+)\s*\)?', dfn, c)
        def idn(m):
            k = m.group(0)
            if k in ('and', 'or', 'not'):
                return k
            if k not in macros:
                raise ExtractionBreak('%s: macro %s in "#if %s" has no stated value' % (name, k, cond.strip()))
            return str(macros[k] if macros[k] is not None else 0)
        c = c.replace('&&', ' and ').replace('||', ' or ')
        c = re.sub(r'!(?!=)', ' not ', c)
        c = re.sub(r'[A-Za-z_]\w*', idn, c)
        try:
            return bool(eval(c, {'__builtins__': {}}))
        except Exception as e:
            raise ExtractionBreak('%s: cannot evaluate "#if %s": %s' % (name, cond.strip(), e))
    for ln in lines:
        m = re.match(r'\s*#\s*(if|ifdef|ifndef|elif|else|endif)\b(.*)', ln)
        if not m:
            if all(s[1] for s in stack):
                out.append(ln)
            continue
        kw, rest = m.group(1), m.group(2)
        parent = all(s[1] for s in stack[:-1]) if kw in ('elif', 'else', 'endif') else all(s[1] for s in stack)
        if kw in ('if', 'ifdef', 'ifndef'):
            if not parent:
                stack.append([True, False])
                continue
            v = ev(rest) if kw == 'if' else ((macros.get(rest.strip()) is not None) if rest.strip() in macros else ev('defined(%s)' % rest.strip()))
            if kw == 'ifndef':
                v = not v
            stack.append([v, v])
        elif kw == 'elif':
            if not stack:
                raise ExtractionBreak('%s: stray #elif' % name)
            if stack[-1][0] or not parent:
                stack[-1][1] = False
            else:
                v = ev(rest)
                stack[-1] = [v, v]
        elif kw == 'else':
            if not stack:
                raise ExtractionBreak('%s: stray #else' % name)
            v = (not stack[-1][0]) and parent
            stack[-1] = [True, v]
        else:
            if not stack:
                raise ExtractionBreak('%s: stray #endif' % name)
            stack.pop()
    if stack:
        raise ExtractionBreak('%s: unterminated #if' % name)
    return '\n'.join(out)


def c_residue(text):
    """C++ residue that goto-cc would reject or silently mis-parse."""
    bad = []
    for pat in (r'\bthis\b', r'::', r'\btemplate\b', r'\bstatic_cast\b', r'\breinterpret_cast\b', r'\bnullptr\b',
                r'\bstd\b', r'\bauto\b', r'\btry\b', r'\bcatch\b', r'\bthrow\b', r'\bnew\b', r'\bdelete\b', r'\[&\]', r'\[=\]'):
        if re.search(pat, mask(text)):
            bad.append(pat)
    return bad


# ---------------------------------------------------------------------------
# generic class -> C conversion
# ---------------------------------------------------------------------------
class CClass:
    """A C view of one C++ class: `struct <cname>` whose members are harvested
    (names and declaration ORDER) from the class text, and whose methods are
    converted one by one with convert()."""

    def __init__(self, rel, class_sig, cname, tbind=None, rw=None, nth=0):
        self.rel = rel
        self.cname = cname
        self.tbind = dict(tbind or {})     # template parameter -> C type
        self.class_sig = class_sig
        self.slice = slice_block(rel, class_sig, nth=nth)
        self.text = self.slice.text
        self.rw = rw or Rewriter(cname)
        self.members = []                  # (type, name, array) in declared order
        self.sliced = []

    def harvest_members(self, names):
        """Find the declarations of the listed data members; record type and order."""
        found = []
        # only declarations at class scope: blank out nested brace blocks (method bodies, nested types)
        mt = mask(self.text)
        o = mt.find('{')
        chars = list(self.text)
        d = 0
        for i in range(o, len(mt)):
            if mt[i] == '{':
                d += 1
                if d >= 2:
                    chars[i] = ' '
            elif mt[i] == '}':
                if d >= 2:
                    chars[i] = ';' if d == 2 else ' '   # a nested block ends: statement separator at class scope
                d -= 1
            elif d >= 2 and chars[i] != '\n':
                chars[i] = ' '
        body = ''.join(chars)[o + 1:]
        # class-scope statements, one at a time (a single regex over the whole class backtracks catastrophically)
        pos = 0
        for st in re.split(r'[;{}]', body):
            start = pos
            pos += len(st) + 1
            st = re.sub(r'\b(public|private|protected)\s*:', ' ', st)
            st = re.sub(r'=[^,]*$', '', st.strip())           # trailing initialiser
            if not st or '(' in st or len(st) > 300:
                continue
            m = re.match(r'(?s)(?:mutable\s+)?(.*?[\w>\*&])\s*((?:[\*&]?\s*\b\w+\s*(?:\[[^\]]*\])?\s*,\s*)*[\*&]?\s*\b\w+\s*(?:\[[^\]]*\])?)$', st)
            if not m:
                continue
            ty = ' '.join(m.group(1).split())
            if ty.split()[0] in ('return', 'using', 'typedef', 'friend', 'static', 'delete', 'goto', 'enum', 'struct', 'class', 'template', 'typename'):
                continue
            for decl in m.group(2).split(','):
                nm = re.match(r'\s*([\*&]?)\s*(\w+)\s*(\[[^\]]*\])?', decl)
                if nm and nm.group(2) in names:
                    found.append((ty + nm.group(1), nm.group(2), nm.group(3) or '', start))
        got = [f[1] for f in found]
        for n in names:
            if got.count(n) != 1:
                raise ExtractionBreak('%s: member %s declared %d times in class text' % (self.cname, n, got.count(n)))
        found.sort(key=lambda f: f[3])
        self.members = [(f[0], f[1], f[2]) for f in found]
        self.rw.fired['harvest-members'] = len(found)
        return self.members

    def member_names(self):
        return [m[1] for m in self.members]

    def ctype(self, ty):
        t = ty.strip()
        t = re.sub(r'\bconst\b', '', t).strip()
        m = re.fullmatch(r'std::atomic<\s*(.+?)\s*>', t)
        if m:
            t = m.group(1)
        if t in self.tbind:
            t = self.tbind[t]
        else:
            for k, v in self.tbind.items():
                t = re.sub(r'(?<![\w:])%s\b' % re.escape(k), v, t)
        t = re.sub(r'\bstd::', '', t)
        return t

    def struct_decl(self, extra=''):
        lines = ['struct %s {' % self.cname]
        for ty, nm, arr in self.members:
            lines.append('    %s %s%s;' % (self.ctype(ty), nm, arr))
        if extra:
            lines.append(extra)
        lines.append('};')
        return '\n'.join(lines) + '\n'

    def method(self, sig, nth=0, ctor=False):
        s = slice_block(self.rel, sig, within=self.class_sig, nth=nth, ctor=ctor)
        self.sliced.append('%s:%d' % (s.rel, s.line))
        return s

    def convert(self, sl, cfn, methods=(), static_methods=(), other=None, ret=None, keep_static=False, pre=(), fcast=(), omethods=None, skip_init=()):
        """Convert a sliced member function to `RET cfn(struct cname* self, params) {body}`.
        methods: member functions of this class that the body calls (-> <cname>_<m>(self, ...)).
        other: {paramname: CClass} for reference parameters of class type (p.x -> p->x, p.m() -> C_m(p))."""
        rw = self.rw
        text = sl.text
        m = mask(text)
        b = m.find('{')
        # constructor with init list?
        hdr_end = b
        colon = None
        depth = 0
        for i, ch in enumerate(m[:b]):
            if ch == '(':
                depth += 1
            elif ch == ')':
                depth -= 1
            elif ch == ':' and depth == 0 and m[i + 1] != ':' and m[i - 1] != ':':
                colon = i
                break
        is_ctor = False
        hdr = text[:colon if colon is not None else b]
        hm = re.match(r'\s*(?:template\s*<[^>]*>\s*)?(?P<pre>(?:(?:static|constexpr|inline|virtual|explicit|friend)\s+)*)(?P<ret>[\w:<>\*&\s]*?)\s*(?P<name>~?\w+)\s*\((?P<params>.*)\)\s*(?P<q>(?:const|noexcept|override|final|\s)*)$', hdr, re.S)
        if not hm:
            raise ExtractionBreak('%s: cannot parse method header %r' % (self.cname, hdr[:120]))
        is_static = 'static' in hm.group('pre')
        rett = hm.group('ret').strip()
        if rett == '':
            is_ctor = True
        params = [p for p in split_args(hm.group('params')) if p]
        cparams, refs = [], {}
        for p in params:
            p = re.sub(r'=.*$', '', p).strip()           # default values dropped
            p = re.sub(r'/\*.*?\*/', '', p).strip()
            if re.fullmatch(r'(?:const\s+)?[\w:]+\s*&?', p):   # unnamed tag parameter (e.g. `split`)
                continue
            pm = re.match(r'(?P<ty>.+?)\s*(?P<ref>&&|&|\*)?\s*(?P<nm>\w+)$', p)
            ty, rf, nm = pm.group('ty').strip(), pm.group('ref'), pm.group('nm')
            cty = self.ctype(ty)
            if other and nm in other:
                cty = 'struct ' + other[nm].cname
            elif cty == hm.group('name') or cty == self.cname or ty.split('<')[0] == re.sub(r'^\w+_', '', self.cname):
                cty = 'struct ' + self.cname
            if nm is None:
                continue       # tag types carry no data: dropped
            if rf in ('&', '&&'):
                refs[nm] = cty
                cparams.append('%s* %s' % (cty, nm))
            elif rf == '*':
                cparams.append('%s* %s' % (cty, nm))
            else:
                cparams.append('%s %s' % (cty, nm))
        rw.fired['ref-param->pointer'] = rw.fired.get('ref-param->pointer', 0) + len(refs)
        body = text[b:]
        init = ''
        if colon is not None:
            il = text[colon + 1:b]
            items = []
            for it in split_args(il):
                im = re.match(r'\s*(\w+)\s*[\(\{](.*)[\)\}]\s*$', it, re.S)
                if not im:
                    raise ExtractionBreak('%s: cannot parse init-list item %r' % (self.cname, it))
                if im.group(1) in skip_init:
                    continue
                items.append((im.group(1), im.group(2).strip()))
            order = self.member_names()
            for nm, _ in items:
                if nm not in order:
                    raise ExtractionBreak('%s: init-list member %s was not harvested' % (self.cname, nm))
            items.sort(key=lambda x: order.index(x[0]))   # C++ initialises in DECLARED order
            init = ''.join('    %s = %s;\n' % (nm, ex if ex else '0') for nm, ex in items)
            rw.fired['ctor-init-list->assignments(declared order)'] = rw.fired.get('ctor-init-list->assignments(declared order)', 0) + len(items)
            body = '{\n' + init + body[1:]
        if ret is None:
            if is_ctor:
                ret = 'void'
            else:
                ret = self.ctype(rett.replace('&', '').replace('*', '').strip()) + ('*' if ('&' in rett or '*' in rett) else '')
                if ret in (re.sub(r'^\w+_', '', self.cname), self.cname):
                    ret = 'struct ' + self.cname
        # body rewriting (string literals are protected)
        lits = []

        def stash(mm):
            lits.append(mm.group(0))
            return '"@LIT%d@"' % (len(lits) - 1)
        body = re.sub(r'"(?:[^"\\\n]|\\.)*"', stash, body)
        for pat, rep, minc in pre:
            body = rw.sub(body, pat, rep, minc, name='pre:' + pat)
        for nm in refs:
            body = re.sub(r'\b%s\.' % nm, nm + '->', body)
        body = re.sub(r'\bthis->', 'self->', body)
        body = re.sub(r'\(\*this\)\.', 'self->', body)
        mem = self.member_names()
        if mem and not is_static:
            body = re.sub(r'(?<![\w.>])(%s)\b(?!\s*\()' % '|'.join(mem), r'self->\1', body)
        if methods:
            def fn(mm, a):
                a = [x for x in a if x != '']
                pre = mm.group('obj')
                if pre:
                    obj = pre[:-2] if pre.endswith('->') else '&' + pre[:-1]
                else:
                    obj = 'self'
                return '%s_%s(%s)' % (self.cname, mm.group('m'), ', '.join([obj] + a))
            for _ in range(10):
                body, n = sub_call(body, r'(?<![\w.>:])(?P<obj>(?:self->|\w+->|\w+\.)?)(?P<m>%s)' % '|'.join(methods), fn)
                if n == 0:
                    break
        if other:
            for pn, oc in other.items():
                def ofn(mm, a, oc=oc, pn=pn):
                    a = [x for x in a if x != '']
                    return '%s_%s(%s)' % (oc.cname, mm.group('m'), ', '.join([pn] + a))
                body, n = sub_call(body, r'\b%s(?:->|\.)(?P<m>\w+)' % pn, ofn)
                rw.fired['other-class-method'] = rw.fired.get('other-class-method', 0) + n
        for tp, ct in self.tbind.items():
            body = re.sub(r'\b%s\b' % re.escape(tp), ct, body)
        body = rw.casts(body)
        if fcast:
            body = rw.fcasts(body, list(fcast))
        body = rw.asserts(body)
        body = rw.std(body)
        body = re.sub(r'"@LIT(\d+)@"', lambda mm: lits[int(mm.group(1))], body)
        selfp = [] if (is_static and not keep_static) else ['struct %s* self' % self.cname]
        return '%s %s(%s) %s\n' % (ret, cfn, ', '.join(selfp + cparams) or 'void', body)
