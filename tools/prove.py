"""prove -- goto-cc / goto-instrument --dfcc / cbmc driver with per-obligation results."""
import json
import os
import re
import resource
import subprocess
import time

VERIF = os.path.dirname(os.path.dirname(os.path.abspath(__file__)))

DEFAULT_CHECKS = ['--bounds-check', '--pointer-check', '--div-by-zero-check', '--signed-overflow-check',
                  '--undefined-shift-check', '--pointer-primitive-check']
MEM_LIMIT = 24 << 30


class Job:
    def __init__(self, name, cfile, entry, route='LF', target=None, source=None, defines=(), enforce=None,
                 replace=(), loops=False, unwind=None, flags=(), checks=None, timeout=300, bounded=False,
                 bound_text=None, inputs=(), nloops=None, solver=None, must_have=(), twin=True, object_bits=None):
        self.name = name            # unique job id
        self.cfile = cfile
        self.entry = entry
        self.route = route          # LF | LC | LW | RG | BD
        self.target = target or name  # function(s) under contract, human readable
        self.source = source        # file:line of the sliced code
        self.defines = list(defines)
        self.enforce = enforce
        self.replace = list(replace)
        self.loops = loops
        self.unwind = unwind
        self.flags = list(flags)
        self.checks = DEFAULT_CHECKS if checks is None else list(checks)
        self.timeout = timeout
        self.bounded = bounded or route == 'BD'
        self.bound_text = bound_text
        self.inputs = list(inputs)  # names of harness input globals (IN_*) to pull from a trace
        self.nloops = nloops        # expected number of loops under contract (presence scan)
        self.solver = solver
        self.must_have = list(must_have)
        self.object_bits = object_bits   # None = CBMC default (8); larger values slow array-heavy proofs down a lot (measured: 15 s vs > 120 s)
        self.twin = twin            # run the vacuity twin (families of case-split jobs keep one twin per sub-family)  # substrings of obligation descriptions that must exist


def _limits():
    resource.setrlimit(resource.RLIMIT_AS, (MEM_LIMIT, MEM_LIMIT))
    os.setsid()


def _run(cmd, timeout, stdout_path=None):
    t0 = time.time()
    try:
        if stdout_path:
            with open(stdout_path, 'w') as f:
                p = subprocess.run(cmd, stdout=f, stderr=subprocess.PIPE, timeout=timeout, preexec_fn=_limits)
            out = ''
        else:
            p = subprocess.run(cmd, stdout=subprocess.PIPE, stderr=subprocess.PIPE, timeout=timeout, preexec_fn=_limits)
            out = p.stdout.decode(errors='replace')
        return p.returncode, out, p.stderr.decode(errors='replace'), time.time() - t0
    except subprocess.TimeoutExpired:
        return None, '', 'timeout after %ss' % timeout, time.time() - t0


def _val(v):
    """CBMC trace value -> python int/str"""
    if v is None:
        return None
    d = v.get('data')
    if d is None:
        return None
    if isinstance(d, bool):
        return int(d)
    d = str(d)
    m = re.fullmatch(r'(-?\d+)(?:u?l?l?|ul|l)?', d)
    if m:
        return int(m.group(1))
    if d in ('TRUE', 'FALSE'):
        return 1 if d == 'TRUE' else 0
    if 'binary' in v and re.fullmatch(r'[01]+', v['binary'] or '') and not str(v.get('type', '')).startswith(('float', 'double')) and v.get('name') != 'pointer':
        b = v['binary']
        n = int(b, 2)
        if not str(v.get('type', '')).startswith('unsigned') and b[0] == '1' and 'char' in str(v.get('type', '')) + d:
            n -= 1 << len(b)
        if "'" in d or 'char' in str(v.get('type', '')):
            return n
    m = re.fullmatch(r'(-?[\d.]+(?:e[+-]?\d+)?)f?', d)
    if m and 'binary' in v and v.get('type', '').startswith(('float', 'double')):
        return d
    return d


def run_job(job, workdir, vacuity=False, trace=True):
    """Returns dict(status=proved|failed|undecided, reason, props, failed, seconds, cmds)."""
    tag = job.name.replace('/', '_') + ('.vac' if vacuity else '')
    a = os.path.join(workdir, tag + '.a.gb')
    b = os.path.join(workdir, tag + '.b.gb')
    outp = os.path.join(workdir, tag + '.json')
    cmds = []
    res = {'job': job.name, 'status': 'undecided', 'reason': '', 'props': [], 'failed': [], 'seconds': 0.0,
           'cmds': cmds, 'vacuity': vacuity, 'log': outp}
    defs = ['-D' + d for d in job.defines] + (['-DVACUITY'] if vacuity else []) + ['-DVERIF_CBMC']
    cmd = ['goto-cc', '--function', job.entry, job.cfile, '-o', a, '-I', os.path.join(VERIF, 'tools'),
           '-I', workdir, '-I', os.path.dirname(job.cfile)] + defs
    cmds.append(' '.join(cmd))
    rc, out, err, dt = _run(cmd, 120)
    res['seconds'] += dt
    if rc != 0:
        res['reason'] = 'goto-cc failed (extraction residue?): ' + (err or out)[-600:]
        return res
    binary = a
    if job.enforce or job.replace or job.loops:
        cmd = ['goto-instrument', '--dfcc', job.entry]
        if job.enforce:
            cmd += ['--enforce-contract', job.enforce]
        for r in job.replace:
            cmd += ['--replace-call-with-contract', r]
        if job.loops:
            cmd += ['--apply-loop-contracts']
        cmd += [a, b]
        cmds.append(' '.join(cmd))
        rc, out, err, dt = _run(cmd, 300)
        res['seconds'] += dt
        if rc != 0:
            res['reason'] = 'goto-instrument failed: ' + (err or out)[-600:]
            return res
        binary = b
    cmd = ['cbmc', binary, '--json-ui', '--drop-unused-functions'] + (['--object-bits', str(job.object_bits)] if job.object_bits else [])
    if not vacuity:
        cmd += job.checks
        if trace:
            cmd += ['--trace']
    # a bound is always given so that a loop nobody wrote a contract for (e.g. one introduced by a change) ends in an unwinding
    # assertion (-> undecided) instead of unwinding for ever
    cmd += ['--unwind', str(job.unwind if job.unwind is not None else 130), '--unwinding-assertions']
    if job.solver:
        cmd += ['--sat-solver', job.solver]
    cmd += job.flags
    cmds.append(' '.join(cmd))
    cap = int(os.environ.get('VERIF_TIMEOUT_CAP', '0') or 0)
    rc, out, err, dt = _run(cmd, min(job.timeout, cap) if cap else job.timeout, outp)
    res['seconds'] += dt
    partial = False
    if rc is None:
        # all-properties mode timed out.  If the (truncated) log shows that a counterexample had already been found, ask again for just the first
        # failing obligation (--stop-on-fail): a named obligation with a counterexample is a verdict, the rest stays unexamined
        try:
            seen_cex = (not vacuity) and 'instance is SATISFIABLE' in open(outp).read()
        except OSError:
            seen_cex = False
        if not seen_cex:
            res['reason'] = 'cbmc timeout (%ds)' % job.timeout
            return res
        cmd2 = cmd + ['--stop-on-fail'] + ([] if '--trace' in cmd else ['--trace'])
        cmds.append(' '.join(cmd2))
        rc, out, err, dt = _run(cmd2, min(job.timeout, 600), outp)
        res['seconds'] += dt
        if rc is None:
            res['reason'] = 'cbmc timeout (%ds), also with --stop-on-fail' % job.timeout
            return res
        partial = True
    try:
        with open(outp) as f:
            doc = json.load(f)
    except Exception as e:
        res['reason'] = 'cbmc output unreadable (rc=%s): %s %s' % (rc, e, err[-300:])
        return res
    if partial:
        # --stop-on-fail prints the one failing property as a top-level entry {property, description, status, trace}
        one = [e for e in doc if 'property' in e and 'status' in e]
        for e in one:
            steps = [st for st in e.get('trace', []) if st.get('sourceLocation')]
            e.setdefault('sourceLocation', steps[-1]['sourceLocation'] if steps else {})
            if str(e.get('status', '')).lower() in ('failed', 'failure'):
                e['status'] = 'FAILURE'
        doc = [e for e in doc if 'property' not in e] + [{'result': one}]
        res['partial'] = 'all-properties run timed out after a counterexample had been found; verdict taken from --stop-on-fail (first failing obligation only)'
    props = None
    warnings = []
    for e in doc:
        if 'result' in e:
            props = e['result']
        elif e.get('messageType') in ('WARNING', 'ERROR'):
            warnings.append(e.get('messageText', ''))
    bad = [w for w in warnings if re.search(r'ignoring|Parse Error|UNKNOWN|no body for function', w)]
    if props is None:
        res['reason'] = 'cbmc produced no result (rc=%s): %s' % (rc, ' | '.join(warnings)[-600:] + err[-300:])
        return res
    if bad and not vacuity:
        res['reason'] = 'cbmc warning treated as undecided: ' + ' | '.join(bad)[:600]
        return res
    unknown = []
    for p in props:
        loc = p.get('sourceLocation', {})
        rec = {'id': p['property'], 'desc': p['description'], 'status': p['status'],
               'file': os.path.basename(loc.get('file', '')), 'line': loc.get('line'), 'function': loc.get('function')}
        res['props'].append(rec)
        if p['status'] == 'FAILURE':
            ins, last = {}, {}
            for s in p.get('trace', []):
                if s.get('stepType') == 'assignment':
                    lhs = s.get('lhs', '')
                    v = _val(s.get('value'))
                    if lhs.startswith('IN_') or lhs in job.inputs:
                        ins[lhs] = v
                    last[lhs] = v
            rec2 = dict(rec)
            rec2['inputs'] = ins
            rec2['state'] = {k: v for k, v in last.items() if not k.startswith('__') and '$' not in k and 'dynamic_object' not in k
                             and isinstance(v, (int, str)) and len(k) < 40}
            res['failed'].append(rec2)
        elif p['status'] not in ('SUCCESS',):
            unknown.append(p['property'] + '=' + p['status'])
    uw = [f for f in res['failed'] if f['desc'].startswith('unwinding assertion')]
    if uw and not vacuity:
        res['failed'] = []
        res['reason'] = 'unwinding bound too small for this code (%s): undecided, not a violation' % uw[0]['id']
        return res
    if unknown and not res['failed'] and not vacuity:
        res['reason'] = 'obligations without a verdict: ' + ', '.join(unknown[:5])
        return res
    if vacuity:
        vac = [p for p in res['props'] if p['desc'].startswith('VACUITY') and p['function'] == job.entry]
        if not vac:
            res['reason'] = 'vacuity twin has no VACUITY assertion (harness must end in VACUITY_END())'
        elif any(p['status'] != 'FAILURE' for p in vac):
            res['reason'] = 'VACUOUS: harness end not reachable under the stated precondition'
        else:
            res['status'] = 'proved'
        return res
    if partial and res['failed']:
        res['status'] = 'failed'
        return res
    if partial:
        res['reason'] = 'cbmc timeout (%ds); --stop-on-fail gave no failing obligation' % job.timeout
        return res
    # presence scans
    if job.loops and job.nloops is not None:
        nl = len(set(p['desc'] for p in res['props'] if 'loop_invariant_step' in p['id']))
        # `for(;;)` loops carry no source location: dfcc emits their base/step/unwinding checks as unnamed `<fn>.<k>` assertions (3 per loop)
        unnamed = [p for p in res['props'] if re.fullmatch(r'\w+\.\d+', p['id']) and p['desc'] == 'assertion']
        nl += len(unnamed) // 3
        import cxx2c
        if nl < job.nloops - sum(cxx2c.LOOP_DEFICIT.values()):
            res['reason'] = 'loop contract silently dropped: %d loops with invariant-step obligations, expected %d' % (nl, job.nloops)
            return res
    for need in job.must_have:
        if not any(need in p['desc'] for p in res['props']):
            res['reason'] = 'expected obligation %r was not generated' % need
            return res
    if not res['props']:
        res['reason'] = 'zero obligations generated'
        return res
    res['status'] = 'failed' if res['failed'] else 'proved'
    return res
