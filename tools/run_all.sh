#!/bin/bash
# run_all.sh [ids...]: runs every registered quick check on the current tree; prints one line per property
cd /verif
ids=${@:-$(python3 -c "import json; print(' '.join(c['property_id'] for c in json.load(open('MANIFEST.json'))['checks']))")}
for id in $ids; do
  s=$(date +%s); out=$(./check $id --tier quick 2>&1); rc=$?; e=$(date +%s)
  echo "$id exit=$rc $((e-s))s $(echo "$out" | grep -E '^(PASS|FAIL|UNDECIDED property)' | cut -c1-160)"
  echo "$out" | grep -E '^(VIOLATION|UNDECIDED-JOB)' | cut -c1-300
done
