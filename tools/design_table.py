#!/usr/bin/env python3
"""Regenerates the per-property table of DESIGN.md (between the markers) from evidence/*.json and tools/registry.py."""
import json, os, re, sys
V = os.path.dirname(os.path.dirname(os.path.abspath(__file__)))
sys.path.insert(0, os.path.join(V, 'tools'))
import registry
rows = ['| id | functions/jobs under contract | obligations discharged | bounded jobs | routes | quick wall s | decided (first sentences; full text in MANIFEST `level_claimed.text`) |', '|---|---|---|---|---|---|---|']
tot_f = tot_o = 0
for pid in sorted(registry.CLAIMS):
    p = os.path.join(V, 'evidence', pid + '.json')
    if not os.path.exists(p):
        continue
    e = json.load(open(p))
    c = e['coverage']
    fu = c.get('functions_under_contract', [])
    routes = sorted(set(f['route'] for f in fu) | set(f['route'] for f in c.get('bounded', [])))
    txt = registry.CLAIMS[pid]['text']
    short = txt[:260].rsplit(' ', 1)[0] + ' ...'
    rows.append('| %s | %d | %d / %d | %d | %s | %.0f | %s |' % (pid, len(fu), c.get('discharged', 0), c.get('obligations', 0), len(c.get('bounded', [])), ' '.join(routes), e.get('wall_s', 0), short.replace('|', '/')))
    tot_f += len(fu); tot_o += c.get('discharged', 0)
rows.append('| total | %d | %d | | | | |' % (tot_f, tot_o))
d = open(os.path.join(V, 'DESIGN.md')).read()
a, b = '<!-- TABLE:BEGIN -->', '<!-- TABLE:END -->'
i, j = d.index(a) + len(a), d.index(b)
open(os.path.join(V, 'DESIGN.md'), 'w').write(d[:i] + '\n' + '\n'.join(rows) + '\n' + d[j:])
print('table: %d properties, %d jobs, %d obligations' % (len(rows) - 3, tot_f, tot_o))
