"""native -- build and run native programs against the REAL oneTBB sources (replay, translation validation)."""
import os
import resource
import subprocess
import glob

REPO = os.environ.get('VERIF_REPO', '/repo')


class NativeError(Exception):
    pass


def libdir():
    c = sorted(glob.glob(os.path.join(REPO, '_build', '*relwithdebinfo'))) + sorted(glob.glob(os.path.join(REPO, '_build', 'gnu*')))
    for d in c:
        if os.path.exists(os.path.join(d, 'libtbb.so')):
            return d
    return None


def build(srcs, out, cxx=True, flags=(), link_tbb=False, link_malloc=False, timeout=300, includes=()):
    cmd = ['g++' if cxx else 'gcc']
    cmd += ['-std=c++17'] if cxx else ['-std=gnu11']
    cmd += ['-O1', '-g0', '-w', '-I', os.path.join(REPO, 'include'), '-I', os.path.join(os.path.dirname(os.path.abspath(__file__)))]
    for i in includes:
        cmd += ['-I', i]
    cmd += list(flags) + list(srcs) + ['-o', out, '-lpthread']
    if link_tbb or link_malloc:
        d = libdir()
        if not d:
            raise NativeError('no built libtbb.so under %s/_build' % REPO)
        cmd += ['-L', d, '-Wl,-rpath,' + d]
        if link_tbb:
            cmd += ['-ltbb']
        if link_malloc:
            cmd += ['-ltbbmalloc']
    try:
        p = subprocess.run(cmd, stdout=subprocess.PIPE, stderr=subprocess.STDOUT, timeout=timeout)
    except subprocess.TimeoutExpired:
        raise NativeError('native build timed out: ' + ' '.join(cmd))
    if p.returncode != 0:
        raise NativeError('native build failed: %s\n%s' % (' '.join(cmd), p.stdout.decode(errors='replace')[-1500:]))
    return out


def compile_obj(src, out, cxx=False, flags=(), includes=(), timeout=300):
    cmd = ['g++' if cxx else 'gcc', '-std=c++17' if cxx else '-std=gnu11', '-O1', '-w', '-c', src, '-o', out,
           '-I', os.path.join(REPO, 'include'), '-I', os.path.dirname(os.path.abspath(__file__))]
    for i in includes:
        cmd += ['-I', i]
    cmd += list(flags)
    p = subprocess.run(cmd, stdout=subprocess.PIPE, stderr=subprocess.STDOUT, timeout=timeout)
    if p.returncode != 0:
        raise NativeError('native compile failed: %s\n%s' % (' '.join(cmd), p.stdout.decode(errors='replace')[-1500:]))
    return out


def run(cmd, timeout=60, mem=8 << 30):
    def lim():
        resource.setrlimit(resource.RLIMIT_AS, (mem, mem))
        resource.setrlimit(resource.RLIMIT_CORE, (0, 0))
    try:
        p = subprocess.run(cmd, stdout=subprocess.PIPE, stderr=subprocess.STDOUT, timeout=timeout, preexec_fn=lim)
        return p.returncode, p.stdout.decode(errors='replace')
    except subprocess.TimeoutExpired as e:
        return 'timeout', (e.stdout or b'').decode(errors='replace')
