"""native -- build and run native programs against the REAL oneTBB sources (replay, translation validation)."""
import os
import resource
import subprocess
import glob

REPO = os.environ.get('VERIF_REPO', '/repo')


class NativeError(Exception):
    pass


def libdir():
    c = sorted(glob.glob(os.path.join(REPO, '_build', '*relwithdebinfo'))) + sorted(glob.glob(os.path.join(REPO, '_build', 'gnu*')))
    for d in c:
        if os.path.exists(os.path.join(d, 'libtbb.so')):
            return d
    return None


def build(srcs, out, cxx=True, flags=(), link_tbb=False, link_malloc=False, timeout=300, includes=(), tbb_dir=None):
    cmd = ['g++' if cxx else 'gcc']
    cmd += ['-std=c++17'] if cxx else ['-std=gnu11']
    cmd += ['-O1', '-g0', '-w', '-I', os.path.join(REPO, 'include'), '-I', os.path.join(os.path.dirname(os.path.abspath(__file__)))]
    for i in includes:
        cmd += ['-I', i]
    cmd += list(flags) + list(srcs) + ['-o', out, '-lpthread']
    if link_tbb or link_malloc:
        d = tbb_dir
        if link_tbb and not d:
            # the library is compiled from /repo's CURRENT src/tbb (about 3 s on 16 cores), never taken from a prebuilt tree
            d = build_tbb_from_source(os.path.join(os.path.dirname(os.path.abspath(out)), 'libtbb_src'))
        d = d or libdir()
        if not d:
            raise NativeError('no built libtbb.so under %s/_build' % REPO)
        cmd += ['-L', d, '-Wl,-rpath,' + d]
        if link_tbb:
            cmd += ['-ltbb']
        if link_malloc:
            cmd += ['-ltbbmalloc']
    try:
        p = subprocess.run(cmd, stdout=subprocess.PIPE, stderr=subprocess.STDOUT, timeout=timeout)
    except subprocess.TimeoutExpired:
        raise NativeError('native build timed out: ' + ' '.join(cmd))
    if p.returncode != 0:
        raise NativeError('native build failed: %s\n%s' % (' '.join(cmd), p.stdout.decode(errors='replace')[-1500:]))
    return out


def compile_obj(src, out, cxx=False, flags=(), includes=(), timeout=300):
    cmd = ['g++' if cxx else 'gcc', '-std=c++17' if cxx else '-std=gnu11', '-O1', '-w', '-c', src, '-o', out,
           '-I', os.path.join(REPO, 'include'), '-I', os.path.dirname(os.path.abspath(__file__))]
    for i in includes:
        cmd += ['-I', i]
    cmd += list(flags)
    p = subprocess.run(cmd, stdout=subprocess.PIPE, stderr=subprocess.STDOUT, timeout=timeout)
    if p.returncode != 0:
        raise NativeError('native compile failed: %s\n%s' % (' '.join(cmd), p.stdout.decode(errors='replace')[-1500:]))
    return out


def run(cmd, timeout=60, mem=8 << 30):
    def lim():
        resource.setrlimit(resource.RLIMIT_AS, (mem, mem))
        resource.setrlimit(resource.RLIMIT_CORE, (0, 0))
    # own session: a replay that forks scenario children (watchdog pattern) must not leave spinning grandchildren behind when it is killed
    p = subprocess.Popen(cmd, stdout=subprocess.PIPE, stderr=subprocess.STDOUT, preexec_fn=lim, start_new_session=True)
    try:
        out, _ = p.communicate(timeout=timeout)
        rc = p.returncode
    except subprocess.TimeoutExpired:
        _killpg(p.pid)
        out, _ = p.communicate()
        rc = 'timeout'
    _killpg(p.pid)
    return rc, (out or b'').decode(errors='replace')


def _killpg(pgid):
    import signal
    try:
        os.killpg(pgid, signal.SIGKILL)
    except (ProcessLookupError, PermissionError):
        pass


def build_tbb_from_source(outdir, jobs=16, debug_files=()):
    """Compile /repo/src/tbb/*.cpp (CURRENT working tree) into <outdir>/libtbb.so.12 so that replays of src/tbb changes do not depend on a
    prebuilt library.  Returns the directory (to be used as -L / rpath)."""
    import concurrent.futures as cf
    os.makedirs(outdir, exist_ok=True)
    srcs = sorted(glob.glob(os.path.join(REPO, 'src', 'tbb', '*.cpp')))
    flags = ['-std=c++11', '-O1', '-g0', '-w', '-fPIC', '-DNDEBUG', '-D__TBB_BUILD', '-D__TBB_USE_ITT_NOTIFY', '-D__TBB_GNU_ASM_VERSION=2040', '-mrtm', '-mwaitpkg',
             '-fno-strict-overflow', '-fno-delete-null-pointer-checks', '-fwrapv', '-I', os.path.join(REPO, 'include')]

    def one(src):
        o = os.path.join(outdir, os.path.basename(src) + '.o')
        fl = flags
        if os.path.basename(src) in debug_files:      # translation units a gdb-driven replay stops in: unoptimised, with line info
            fl = [x for x in flags if x not in ('-O1', '-g0')] + ['-O0', '-g']
        p = subprocess.run(['g++'] + fl + ['-c', src, '-o', o], stdout=subprocess.PIPE, stderr=subprocess.STDOUT, timeout=600)
        if p.returncode != 0:
            raise NativeError('libtbb source build failed on %s: %s' % (src, p.stdout.decode(errors='replace')[-800:]))
        return o
    with cf.ThreadPoolExecutor(max_workers=jobs) as ex:
        objs = list(ex.map(one, srcs))
    lib = os.path.join(outdir, 'libtbb.so.12')
    p = subprocess.run(['g++', '-shared', '-o', lib] + objs + ['-Wl,--version-script=' + os.path.join(REPO, 'src/tbb/def/lin64-tbb.def'), '-ldl', '-lpthread', '-Wl,-soname,libtbb.so.12'],
                       stdout=subprocess.PIPE, stderr=subprocess.STDOUT, timeout=600)
    if p.returncode != 0:
        raise NativeError('libtbb link failed: ' + p.stdout.decode(errors='replace')[-800:])
    if not os.path.exists(os.path.join(outdir, 'libtbb.so')):
        os.symlink('libtbb.so.12', os.path.join(outdir, 'libtbb.so'))
    return outdir
